package main

import (
	"fmt"
	"go/types"
	"strings"

	"golang.org/x/tools/go/ssa"
)

func init() {
	register(&propMeta{
		ID: "C07",
		Explain: "Decides structural necessary conditions of 'suite expansion selects, names and populates permutations per suite directives': " +
			"(filter) a suite is expanded only when its mode is unspecified or equals the run mode, a test case only for the config case with its own stream type, a TLS-reliant suite only probes TLS cases, misconfigured suites are rejected before any expansion; " +
			"(wire) the probed config case takes client-cert / GET / receive-limit / version-mode from the suite's directives and TLS from the loop, the permutation's request takes version, protocol, codec and compression from the config case, and the TLS markers are (re)written on every path: set exactly on the UseTLS / UseTLSClientCerts edges and cleared otherwise; " +
			"(unique) a permutation is stored only under a name not yet present, and the name is path.Join(prefix from (suite, config case), simple name); " +
			"(name-axes) the prefix spells out an axis exactly when the suite leaves it open (len(Relevant…) != 1, TLS unless the suite relies on it) and formats it from the config case's own field; " +
			"(group) serverInstanceForCase and the server-config key built in run derive protocol, HTTP version, TLS and client-cert use identically; " +
			"(mode-payload) raw requests outside server mode, raw responses outside client mode or without explicit expectation, and expand directives with non-proto codecs are rejected before the suite is accepted. " +
			"It does NOT decide the iff over the product space of suites × config cases × modes, nor stability across map iteration orders beyond the name being a function of suite, config case and simple name only.",
		NotDecided: []string{"the if-and-only-if over all suite definitions × config-case sets × modes", "that repeated expansion yields the same set under every map iteration order (only: the name depends on nothing order-dependent)"},
		Assume:     []string{"branch conditions are opaque atoms keyed by struct type, field and constant"},
		Trusted:    commonTrusted,
		Run:        runC07,
	})
	f := "internal/app/connectconformance/test_case_library.go"
	addMutants(
		Mutant{ID: "C07-protocol-axis", Prop: "C07", File: f, Old: "\tif len(suite.RelevantProtocols) != 1 {\n\t\tcomponents = append(components, fmt.Sprintf(\"Protocol:%s\", cfgCase.Protocol))", New: "\tif len(suite.RelevantProtocols) == 0 {\n\t\tcomponents = append(components, fmt.Sprintf(\"Protocol:%s\", cfgCase.Protocol))",
			Expect: []string{"name-axes."}, Note: "seed C07-1: protocol axis omitted for suites listing several protocols (names collide)"},
		Mutant{ID: "C07-tls-not-cleared", Prop: "C07", File: f, Old: "\t\t} else {\n\t\t\ttestCase.Request.ServerTlsCert = nil\n\t\t\ttestCase.Request.ClientTlsCreds = nil\n\t\t}", New: "\t\t}",
			Expect: []string{"wire.tls-markers"}, Note: "seed C07-2 (part): TLS markers of the template survive in non-TLS permutations"},
		Mutant{ID: "C07-mode-filter", Prop: "C07", File: f, Old: "\t\tif suite.Mode != conformancev1.TestSuite_TEST_MODE_UNSPECIFIED && suite.Mode != mode {", New: "\t\tif suite.Mode != mode {",
			Expect: []string{"filter.mode"}, Note: "mode-unspecified suites skipped"},
		Mutant{ID: "C07-probe-swap", Prop: "C07", File: f, Old: "\t\t\t\t\t\t\t\tUseConnectGET:          suite.ReliesOnConnectGet,\n", New: "\t\t\t\t\t\t\t\tUseConnectGET:          suite.ReliesOnMessageReceiveLimit,\n",
			Expect: []string{"wire.probe."}, Note: "GET probing keyed by the wrong directive"},
		Mutant{ID: "C07-dup-overwrite", Prop: "C07", File: f, Old: "\t\tif _, exists := lib.testCases[fullName]; exists {\n\t\t\treturn fmt.Errorf(\"test case library includes duplicate definition for %v\", fullName)\n\t\t}\n", New: "",
			Expect: []string{"unique."}, Note: "duplicate names overwrite silently"},
		Mutant{ID: "C07-streamtype-filter", Prop: "C07", File: f, Old: "\t\tif testCase.Request.StreamType != cfgCase.StreamType {\n\t\t\tcontinue\n\t\t}\n", New: "",
			Expect: []string{"filter.stream-type"}, Note: "every test case expanded for every stream type"},
		Mutant{ID: "C07-tls-reliant-all", Prop: "C07", File: f, Old: "\t\t\tif suite.ReliesOnTls {\n\t\t\t\ttlsCases = []bool{true} // can't run these cases w/out TLS\n\t\t\t}\n", New: "",
			Expect: []string{"filter.relies-on-tls"}, Note: "TLS-reliant suites also run without TLS"},
		Mutant{ID: "C07-group-mismatch", Prop: "C07", File: f, Old: "\t\tuseTLS:            len(testCase.Request.ServerTlsCert) > 0,\n\t\tuseTLSClientCerts: testCase.Request.ClientTlsCreds != nil,\n\t}\n}\n\ntype unaryResponseDefiner", New: "\t\tuseTLS:            len(testCase.Request.ServerTlsCert) > 0,\n\t\tuseTLSClientCerts: len(testCase.Request.ServerTlsCert) > 0,\n\t}\n}\n\ntype unaryResponseDefiner",
			Expect: []string{"group."}, Note: "grouping and server-config key disagree on client-cert use"},
		Mutant{ID: "C07-raw-any-mode", Prop: "C07", File: f, Old: "if testCase.Request.RawRequest != nil && suite.Mode != conformancev1.TestSuite_TEST_MODE_SERVER {", New: "if testCase.Request.RawRequest != nil && suite.Mode == conformancev1.TestSuite_TEST_MODE_CLIENT {",
			Expect: []string{"mode-payload."}, Note: "raw requests accepted in mode-unspecified suites"},
		Mutant{ID: "C07-codec-wire", Prop: "C07", File: f, Old: "\t\ttestCase.Request.HttpVersion = cfgCase.Version\n", New: "",
			Expect: []string{"wire.request.HttpVersion"}, Note: "request keeps the template's HTTP version"},
	)
}

func runC07(p *Prog, r *Report) {
	newLib := p.Func(pkgCC, "", "newTestCaseLibrary")
	expandSuite := p.Func(pkgCC, "testCaseLibrary", "expandSuite")
	expandCases := p.Func(pkgCC, "testCaseLibrary", "expandCases")
	prefix := p.Func(pkgCC, "", "generateTestCasePrefix")
	parse := p.Func(pkgCC, "", "parseTestSuites")
	for _, f := range []*ssa.Function{newLib, expandSuite, expandCases, prefix, parse} {
		if f == nil {
			r.Undecided("scope", "R-GUARD", "suite expansion functions not found")
			return
		}
		r.Func(funcName(f))
	}
	e := &boolEval{key: genericKey}
	k := func(format string, a ...any) string { return fmt.Sprintf(format, a...) }
	// ---- filter.mode ----
	expandSuiteObj := funcObj(expandSuite)
	calls := findInstrs(newLib, isCallObj(expandSuiteObj))
	r.Sites += 3
	if len(calls) != 1 {
		r.Fail("filter.mode", "R-GUARD", p.Pos(newLib.Pos()), "newTestCaseLibrary does not expand suites through exactly one expandSuite call")
	} else {
		c := calls[0]
		base := sigma{"empty(TestSuite.Name)": false, "len(TestSuite.TestCases)==0": false}
		with := func(s sigma) sigma {
			o := sigma{}
			for kk, v := range base {
				o[kk] = v
			}
			for kk, v := range s {
				o[kk] = v
			}
			return o
		}
		other := !e.reachableUnder(newLib, c, with(sigma{"TestSuite.Mode==0": false, "TestSuite.Mode==$mode": false}))
		unspec := e.reachableUnder(newLib, c, with(sigma{"TestSuite.Mode==0": true, "TestSuite.Mode==$mode": false}))
		same := e.reachableUnder(newLib, c, with(sigma{"TestSuite.Mode==0": false, "TestSuite.Mode==$mode": true}))
		r.Check(other && unspec && same, "filter.mode", "R-GUARD", p.InstrPos(c), "expandSuite reachable for mode unspecified or equal to the run mode, unreachable otherwise",
			fmt.Sprintf("the mode filter of newTestCaseLibrary is not `mode unspecified ∨ mode == run mode` (other-mode skipped=%v, unspecified expanded=%v, same-mode expanded=%v)", other, unspec, same))
	}
	// ---- filter.stream-type & unique ----
	tcMap := p.Field(pkgCC, "testCaseLibrary", "testCases")
	var store *ssa.MapUpdate
	eachInstr(expandCases, func(in ssa.Instruction) {
		if mu, ok := in.(*ssa.MapUpdate); ok && loadedField(mu.Map) == tcMap {
			store = mu
		}
	})
	if store == nil {
		r.Undecided("filter.stream-type", "R-GUARD", "store into lib.testCases not found")
	} else {
		r.Sites += 2
		r.Check(guardedBy(store, func(a Atom) bool {
			kk, neg, ok := genericKey(a)
			return ok && kk == "ClientCompatRequest.StreamType==configCase.StreamType" && !neg
		}), "filter.stream-type", "R-GUARD", p.InstrPos(store), "a permutation is stored only when the test's stream type equals the config case's", "a test case is expanded for a config case with a different stream type")
		r.Check(guardedBy(store, func(a Atom) bool {
			m, v := boolTestOn(a, func(x ssa.Value) bool { return commaOkOfLookupOn(x, tcMap) })
			if !m || v {
				return false
			}
			// same key as the store
			var lk *ssa.Lookup
			if ex, ok := canon(a.X).(*ssa.Extract); ok {
				lk, _ = ex.Tuple.(*ssa.Lookup)
			}
			return lk != nil && sameVal(lk.Index, store.Key)
		}), "unique.not-present", "R-GUARD", p.InstrPos(store), "stored on the not-yet-present edge of a lookup of the same name", "a permutation can be stored under a name that is already present (duplicate names overwrite each other instead of being rejected)")
		// name = path.Join(append(namePrefix, simpleName)...)
		okName := false
		if c, ok := canon(store.Key).(*ssa.Call); ok && isCallToNamed(&c.Call, "path", "", "Join") {
			if ap, ok := canon(c.Call.Args[0]).(*ssa.Call); ok {
				if b, isB := ap.Call.Value.(*ssa.Builtin); isB && b.Name() == "append" {
					prm, isP := canon(ap.Call.Args[0]).(*ssa.Parameter)
					tn := p.Field(pkgGen, "ClientCompatRequest", "TestName")
					okName = isP && prm.Name() == "namePrefix" && sliceHasLoadOf(ap.Call.Args[1], tn)
				}
			}
		}
		r.Sites++
		r.Check(okName, "unique.name", "R-WIRE", p.InstrPos(store), "fullName = path.Join(append(namePrefix, simpleName)...)", "the full name is not path.Join(prefix..., simple test name): it would not be a stable function of suite, config case and test name")
		// the prefix passed in is generateTestCasePrefix(suite, cfgCase) of the probed case
		ecObj := funcObj(expandCases)
		okP := false
		for _, c := range findInstrs(expandSuite, isCallObj(ecObj)) {
			cc := callCommon(c)
			if pc, ok := canon(cc.Args[2]).(*ssa.Call); ok && calleeObj(&pc.Call) == funcObj(prefix) {
				if prm, isP := canon(pc.Call.Args[0]).(*ssa.Parameter); isP && prm.Name() == "suite" && sameVal(pc.Call.Args[1], cc.Args[1]) {
					okP = true
				}
			}
		}
		r.Sites++
		r.Check(okP, "unique.prefix-source", "R-WIRE", p.Pos(expandSuite.Pos()), "expandCases(cfgCase, generateTestCasePrefix(suite, cfgCase), …) with the same config case", "the name prefix is not generated from the suite and the very config case being expanded")
	}
	// ---- filter.relies-on-tls ----
	okTLS := false
	eachInstr(expandSuite, func(in ssa.Instruction) {
		phi, ok := in.(*ssa.Phi)
		if !ok || phi.Comment != "tlsCases" {
			return
		}
		okTLS = len(phi.Edges) == 2
		for i, ed := range phi.Edges {
			as := edgeAtoms(phi.Block().Preds[i], phi.Block())
			relies := hasAtom(as, func(a Atom) bool { kk, neg, ok := genericKey(a); return ok && kk == "TestSuite.ReliesOnTls" && !neg })
			n := literalLen(ed)
			switch {
			case n == 1 && sliceHasTrue(ed) && relies:
			case n == 2 && !relies:
			default:
				okTLS = false
			}
		}
	})
	r.Sites++
	r.Check(okTLS, "filter.relies-on-tls", "R-GUARD", p.Pos(expandSuite.Pos()), "TLS cases narrowed to {true} exactly on the ReliesOnTls edge", "a suite that relies on TLS is not confined to TLS config cases (or other suites are narrowed)")
	// ---- filter.misconfigured ----
	ecCalls := findInstrs(expandSuite, isCallObj(funcObj(expandCases)))
	connectV := enumVal(p, "Protocol_PROTOCOL_CONNECT")
	if len(ecCalls) == 1 {
		for _, mc := range []sigmaCase{
			{"client-certs-without-tls", sigma{"TestSuite.ReliesOnTlsClientCerts": true, "TestSuite.ReliesOnTls": false}},
			{"connect-get-non-connect", sigma{"TestSuite.ReliesOnTlsClientCerts": false, "TestSuite.ReliesOnConnectGet": true, k("only(TestSuite.RelevantProtocols,%d)", connectV): false}},
			{"version-mode-ignore-non-connect", sigma{"TestSuite.ReliesOnTlsClientCerts": false, "TestSuite.ReliesOnConnectGet": false, k("TestSuite.ConnectVersionMode==%d", enumVal(p, "TestSuite_CONNECT_VERSION_MODE_IGNORE")): true, k("only(TestSuite.RelevantProtocols,%d)", connectV): false}},
			{"version-mode-require-non-connect", sigma{"TestSuite.ReliesOnTlsClientCerts": false, "TestSuite.ReliesOnConnectGet": false, k("TestSuite.ConnectVersionMode==%d", enumVal(p, "TestSuite_CONNECT_VERSION_MODE_IGNORE")): false, k("TestSuite.ConnectVersionMode==%d", enumVal(p, "TestSuite_CONNECT_VERSION_MODE_REQUIRE")): true, k("only(TestSuite.RelevantProtocols,%d)", connectV): false}},
		} {
			r.Sites++
			r.Check(!e.reachableUnder(expandSuite, ecCalls[0], mc.s), "filter.misconfigured."+mc.name, "R-GUARD", p.Pos(expandSuite.Pos()), "no expansion under "+sigmaString(mc.s), "a misconfigured suite {"+sigmaString(mc.s)+"} is expanded instead of rejected")
		}
		r.Sites++
		r.Check(e.reachableUnder(expandSuite, ecCalls[0], sigma{"TestSuite.ReliesOnTlsClientCerts": true, "TestSuite.ReliesOnTls": true, "TestSuite.ReliesOnConnectGet": false, k("TestSuite.ConnectVersionMode==%d", 1): false, k("TestSuite.ConnectVersionMode==%d", 2): false}),
			"filter.wellconfigured", "R-GUARD", p.Pos(expandSuite.Pos()), "a TLS + client-cert suite is expanded", "a well-configured suite (TLS with client certs) is never expanded")
	} else {
		r.Undecided("filter.misconfigured", "R-GUARD", "expandCases call not found in expandSuite")
	}
	// ---- wire.probe ----
	for _, w := range []struct{ dst, src string }{
		{"UseTLSClientCerts", "TestSuite.ReliesOnTlsClientCerts"}, {"UseConnectGET", "TestSuite.ReliesOnConnectGet"},
		{"UseMessageReceiveLimit", "TestSuite.ReliesOnMessageReceiveLimit"}, {"ConnectVersionMode", "TestSuite.ConnectVersionMode"}, {"UseTLS", "elem(tlsCases)"},
		{"Version", "elem(httpVersions)"}, {"Protocol", "elem(protocols)"}, {"Codec", "elem(codecs)"}, {"Compression", "elem(compressions)"}, {"StreamType", "elem(allStreamTypes)"},
	} {
		f := p.Field(pkgCC, "configCase", w.dst)
		sts := storesToField([]*ssa.Function{expandSuite}, f)
		r.Sites++
		ok := len(sts) == 1
		got := ""
		if ok {
			if kk, isF := fieldRefKey(sts[0].Val); isF {
				got = kk
			} else if kk, isE := elemKey(sts[0].Val); isE {
				got = kk
			} else if u, isU := canon(sts[0].Val).(*ssa.UnOp); isU {
				if ia, isIA := u.X.(*ssa.IndexAddr); isIA {
					if g, isG := canon(ia.X).(*ssa.UnOp); isG {
						if gl, isGl := g.X.(*ssa.Global); isGl {
							got = "elem(" + gl.Name() + ")"
						}
					}
				}
			}
			ok = got == w.src
		}
		r.Check(ok, "wire.probe."+w.dst, "R-WIRE", p.Pos(expandSuite.Pos()), "probe."+w.dst+" ← "+w.src, "the probed config case's "+w.dst+" is "+got+", expected "+w.src+": the suite would be matched against the wrong config cases")
	}
	// ---- wire.request ----
	for _, w := range []struct{ dst, src string }{{"HttpVersion", "Version"}, {"Protocol", "Protocol"}, {"Codec", "Codec"}, {"Compression", "Compression"}} {
		f := p.Field(pkgGen, "ClientCompatRequest", w.dst)
		src := p.Field(pkgCC, "configCase", w.src)
		r.Sites++
		ok := false
		if store != nil {
			for _, st := range storesToField([]*ssa.Function{expandCases}, f) {
				if loadedField(canon(st.Val)) == src && precededBy(store, func(in ssa.Instruction) bool { return in == st.Instr }) {
					ok = true
				}
			}
		}
		r.Check(ok, "wire.request."+w.dst, "R-WIRE", p.Pos(expandCases.Pos()), "Request."+w.dst+" ← cfgCase."+w.src+" before the permutation is stored", "the permutation's request does not take "+w.dst+" from the config case on every path")
	}
	// TLS markers (re)written on every path, with the right polarity
	tlsMarkerRule(p, r)
	// ---- name-axes ----
	axes := map[string]string{ // configCase field formatted -> guard key (must be the only atom)
		"Version": "len(TestSuite.RelevantHttpVersions)==1", "Protocol": "len(TestSuite.RelevantProtocols)==1", "Codec": "len(TestSuite.RelevantCodecs)==1",
		"Compression": "len(TestSuite.RelevantCompressions)==1", "UseTLS": "TestSuite.ReliesOnTls",
	}
	seenAxes := map[string]bool{}
	eachInstr(prefix, func(in ssa.Instruction) {
		c, ok := in.(*ssa.Call)
		if !ok || !isCallToNamed(&c.Call, "fmt", "", "Sprintf") {
			return
		}
		// which configCase field is formatted?
		var fld string
		if sl, ok := c.Call.Args[1].(*ssa.Slice); ok {
			if arr, ok := sl.X.(*ssa.Alloc); ok {
				for _, ref := range *arr.Referrers() {
					if ia, ok := ref.(*ssa.IndexAddr); ok {
						for _, r2 := range *ia.Referrers() {
							if st, ok := r2.(*ssa.Store); ok {
								if f := loadedField(canon(st.Val)); f != nil {
									fld = f.Name()
								} else if mi, ok := st.Val.(*ssa.MakeInterface); ok {
									if f := loadedField(canon(mi.X)); f != nil {
										fld = f.Name()
									}
								}
							}
						}
					}
				}
			}
		}
		want, known := axes[fld]
		if !known {
			return
		}
		seenAxes[fld] = true
		r.Sites++
		as := atomsAt(c.Block())
		ok2 := len(as) == 1
		if ok2 {
			kk, neg, m := genericKey(as[0])
			ok2 = m && kk == want && neg
		}
		format, _ := constString(c.Call.Args[0])
		r.Check(ok2, "name-axes."+fld, "R-TABLE-AGREE", p.InstrPos(c), fmt.Sprintf("%q appended exactly on ¬(%s)", format, want),
			fmt.Sprintf("the name component for %s (%q) is not appended exactly when ¬(%s): names of suites that leave the axis open would collide, or names would change with the configuration", fld, format, want))
	})
	for fld := range axes {
		if !seenAxes[fld] {
			r.Fail("name-axes."+fld, "R-TABLE-AGREE", p.Pos(prefix.Pos()), "generateTestCasePrefix no longer formats a component from cfgCase."+fld)
		}
	}
	// ---- group ----
	sic := p.Func(pkgCC, "", "serverInstanceForCase")
	run := p.Func(pkgCC, "", "run")
	if sic == nil || run == nil {
		r.Undecided("group", "R-TABLE-AGREE", "serverInstanceForCase / run not found")
	} else {
		rel := func(fn *ssa.Function) map[string]string {
			out := map[string]string{}
			for _, fld := range []string{"protocol", "httpVersion", "useTLS", "useTLSClientCerts"} {
				f := p.Field(pkgCC, "serverInstance", fld)
				for _, st := range storesToField([]*ssa.Function{fn}, f) {
					out[fld] = shapeOf(st.Val)
				}
			}
			return out
		}
		a, b := rel(sic), rel(run)
		r.Sites += 4
		ok := len(a) == 4 && len(b) == 4
		diff := ""
		for kk, v := range a {
			if b[kk] != v {
				ok = false
				diff += fmt.Sprintf(" %s: %s vs %s;", kk, v, b[kk])
			}
		}
		want := map[string]string{"protocol": "ClientCompatRequest.Protocol", "httpVersion": "ClientCompatRequest.HttpVersion", "useTLS": "len(ClientCompatRequest.ServerTlsCert)>0", "useTLSClientCerts": "ClientCompatRequest.ClientTlsCreds!=nil"}
		for kk, v := range want {
			if a[kk] != v {
				ok = false
				diff += fmt.Sprintf(" %s is %s, expected %s;", kk, a[kk], v)
			}
		}
		r.Check(ok, "group.agree", "R-TABLE-AGREE", p.Pos(sic.Pos()), fmt.Sprintf("both derive %v", a), "serverInstanceForCase and the server-config key in run derive the server instance differently:"+diff)
	}
	// ---- mode-payload ----
	var accept ssa.Instruction
	eachInstr(parse, func(in ssa.Instruction) {
		if mu, ok := in.(*ssa.MapUpdate); ok {
			if _, isMap := mu.Map.Type().Underlying().(*types.Map); isMap {
				accept = in
			}
		}
	})
	expandReq := p.TypeFunc(pkgCC, "", "expandRequestData")
	erCalls := findInstrs(parse, isCallObj(expandReq))
	if accept == nil || len(erCalls) != 1 {
		r.Undecided("mode-payload", "R-GUARD", "acceptance of a parsed suite / expandRequestData call not found")
	} else {
		target := erCalls[0]
		serverM, clientM := enumVal(p, "TestSuite_TEST_MODE_SERVER"), enumVal(p, "TestSuite_TEST_MODE_CLIENT")
		proto := enumVal(p, "Codec_CODEC_PROTO")
		base := sigma{"nil(TestCase.Request)": false}
		mk := func(s sigma) sigma {
			o := sigma{}
			for kk, v := range base {
				o[kk] = v
			}
			for kk, v := range s {
				o[kk] = v
			}
			return o
		}
		for _, mc := range []sigmaCase{
			{"no-request", sigma{"nil(TestCase.Request)": true}},
			{"raw-request-outside-server-mode", mk(sigma{"nil(ClientCompatRequest.RawRequest)": false, k("TestSuite.Mode==%d", serverM): false})},
			{"raw-response-outside-client-mode", mk(sigma{"nil(ClientCompatRequest.RawRequest)": true, "hasRawResponse(ClientCompatRequest.RequestMessages)": true, k("TestSuite.Mode==%d", clientM): false})},
			{"raw-response-without-expectation", mk(sigma{"nil(ClientCompatRequest.RawRequest)": true, "hasRawResponse(ClientCompatRequest.RequestMessages)": true, k("TestSuite.Mode==%d", clientM): true, "nil(TestCase.ExpectedResponse)": true})},
			{"expand-with-several-codecs", mk(sigma{"nil(ClientCompatRequest.RawRequest)": true, "hasRawResponse(ClientCompatRequest.RequestMessages)": false, "len(TestCase.ExpandRequests)==0": false, "len(TestSuite.RelevantCodecs)>1": true})},
			{"expand-without-proto-codec", mk(sigma{"nil(ClientCompatRequest.RawRequest)": true, "hasRawResponse(ClientCompatRequest.RequestMessages)": false, "len(TestCase.ExpandRequests)==0": false, "len(TestSuite.RelevantCodecs)>1": false, k("hasCodec(TestSuite.RelevantCodecs,%d)", proto): false})},
		} {
			r.Sites++
			r.Check(!e.reachableUnder(parse, target, mc.s), "mode-payload.rejected."+mc.name, "R-GUARD", p.Pos(parse.Pos()), "request expansion / acceptance unreachable under "+sigmaString(mc.s), "parseTestSuites accepts a test case under {"+sigmaString(mc.s)+"} instead of rejecting the suite")
		}
		for _, vc := range []sigmaCase{
			{"raw-request-in-server-mode", mk(sigma{"nil(ClientCompatRequest.RawRequest)": false, k("TestSuite.Mode==%d", serverM): true, k("TestSuite.Mode==%d", clientM): false, "hasRawResponse(ClientCompatRequest.RequestMessages)": false, "len(TestCase.ExpandRequests)==0": true})},
			{"plain", mk(sigma{"nil(ClientCompatRequest.RawRequest)": true, "hasRawResponse(ClientCompatRequest.RequestMessages)": false, "len(TestCase.ExpandRequests)==0": true})},
		} {
			r.Sites++
			r.Check(e.reachableUnder(parse, target, vc.s), "mode-payload.accepted."+vc.name, "R-GUARD", p.Pos(parse.Pos()), "reachable under "+sigmaString(vc.s), "parseTestSuites rejects a valid test case under {"+sigmaString(vc.s)+"}")
		}
	}
}

// mustPassBefore: every path from `from` that reaches `to` passes target first.
func mustPassBefore(from ssa.Instruction, to ssa.Instruction, target instrPred) (bool, ssa.Instruction) {
	// search paths from `from` to `to` avoiding target
	b := from.Block()
	idx := 0
	for i, in := range b.Instrs {
		if in == from {
			idx = i + 1
		}
	}
	for _, in := range b.Instrs[idx:] {
		if target(in) {
			return true, nil
		}
		if in == to {
			return false, in
		}
	}
	seen := map[*ssa.BasicBlock]bool{}
	var visit func(blk *ssa.BasicBlock) bool
	visit = func(blk *ssa.BasicBlock) bool {
		if seen[blk] {
			return true
		}
		seen[blk] = true
		for _, in := range blk.Instrs {
			if target(in) {
				return true
			}
			if in == to {
				return false
			}
		}
		for _, s := range blk.Succs {
			if !visit(s) {
				return false
			}
		}
		return true
	}
	for _, s := range b.Succs {
		if !visit(s) {
			return false, to
		}
	}
	return true, nil
}

// sliceHasLoadOf: the variadic slice contains a load of field f.
func sliceHasLoadOf(v ssa.Value, f *types.Var) bool {
	sl, ok := v.(*ssa.Slice)
	if !ok {
		return false
	}
	arr, ok := sl.X.(*ssa.Alloc)
	if !ok {
		return false
	}
	for _, ref := range *arr.Referrers() {
		if ia, ok := ref.(*ssa.IndexAddr); ok {
			for _, r2 := range *ia.Referrers() {
				if st, ok := r2.(*ssa.Store); ok && loadedField(canon(st.Val)) == f {
					return true
				}
			}
		}
	}
	return false
}

// shapeOf renders how a serverInstance field is derived from the request.
func shapeOf(v ssa.Value) string {
	v = canon(v)
	if k, ok := fieldRefKey(v); ok {
		return k
	}
	if bo, ok := v.(*ssa.BinOp); ok {
		if la, isLen := lenArg(bo.X); isLen {
			if k, ok := fieldRefKey(la); ok {
				c, _ := constInt(bo.Y)
				return "len(" + k + ")" + bo.Op.String() + itoa(c)
			}
		}
		if isNilConst(bo.Y) {
			if k, ok := fieldRefKey(bo.X); ok {
				return k + bo.Op.String() + "nil"
			}
		}
	}
	return strings.TrimSpace(path(v))
}

// tlsMarkerRule: in expandCases the permutation's TLS markers (ServerTlsCert,
// ClientTlsCreds) are rewritten on every path from the clone to the store: set
// on the UseTLS (∧ UseTLSClientCerts) edge, nil otherwise. Shared by C07
// (population of permutations) and C05 (the server instance a permutation is
// grouped under is derived from exactly these fields).
func tlsMarkerRule(p *Prog, r *Report) {
	expandCases := p.Func(pkgCC, "testCaseLibrary", "expandCases")
	if expandCases == nil {
		r.Undecided("wire.tls-markers", "R-WIRE", "expandCases not found")
		return
	}
	r.Func(funcName(expandCases))
	tcMap := p.Field(pkgCC, "testCaseLibrary", "testCases")
	var store *ssa.MapUpdate
	eachInstr(expandCases, func(in ssa.Instruction) {
		if mu, ok := in.(*ssa.MapUpdate); ok && loadedField(mu.Map) == tcMap {
			store = mu
		}
	})
	if store == nil {
		r.Undecided("wire.tls-markers", "R-WIRE", "store into lib.testCases not found")
		return
	}
	cert, creds := p.Field(pkgGen, "ClientCompatRequest", "ServerTlsCert"), p.Field(pkgGen, "ClientCompatRequest", "ClientTlsCreds")
	var clone ssa.Instruction
	eachInstr(expandCases, func(in ssa.Instruction) {
		if c := callCommon(in); c != nil && isCallToNamed(c, "google.golang.org/protobuf/proto", "", "Clone") {
			clone = in
		}
	})
	okMarkers := clone != nil
	why := ""
	if okMarkers {
		for _, f := range []*types.Var{cert, creds} {
			ok, _ := mustPassBefore(clone, store, func(in ssa.Instruction) bool {
				st, ok := in.(*ssa.Store)
				if !ok {
					return false
				}
				fa, ok := st.Addr.(*ssa.FieldAddr)
				return ok && fieldVar(fa.X.Type(), fa.Field) == f
			})
			if !ok {
				okMarkers = false
				why += " " + f.Name() + " is not rewritten on every path from the clone to the store;"
			}
		}
		useTLS := func(b bool) func(Atom) bool {
			return func(a Atom) bool { kk, neg, ok := genericKey(a); return ok && kk == "configCase.UseTLS" && neg != b }
		}
		useCC := func(b bool) func(Atom) bool {
			return func(a Atom) bool {
				kk, neg, ok := genericKey(a)
				return ok && kk == "configCase.UseTLSClientCerts" && neg != b
			}
		}
		for _, st := range storesToField([]*ssa.Function{expandCases}, cert) {
			r.Sites++
			as := atomsAt(st.Instr.Block())
			if isNilConst(st.Val) != hasAtom(as, useTLS(false)) || !isNilConst(st.Val) && !hasAtom(as, useTLS(true)) {
				okMarkers = false
				why += " ServerTlsCert is set/cleared on the wrong UseTLS edge;"
			}
		}
		for _, st := range storesToField([]*ssa.Function{expandCases}, creds) {
			r.Sites++
			as := atomsAt(st.Instr.Block())
			set := !isNilConst(st.Val)
			if set && !(hasAtom(as, useTLS(true)) && hasAtom(as, useCC(true))) {
				okMarkers = false
				why += " ClientTlsCreds is set outside (UseTLS ∧ UseTLSClientCerts);"
			}
			if !set && !(hasAtom(as, useTLS(false)) || hasAtom(as, useCC(false))) {
				okMarkers = false
				why += " ClientTlsCreds is cleared on an edge where client certs are in use;"
			}
		}
	}
	r.Check(okMarkers, "wire.tls-markers", "R-WIRE", p.Pos(expandCases.Pos()), "ServerTlsCert / ClientTlsCreds are written on every path: set on the UseTLS (∧ UseTLSClientCerts) edge, nil otherwise",
		"the permutation's TLS markers are not rewritten on every path:"+why+" a template carrying TLS fields would be grouped under the wrong server instance")
}
