package main

// General audits added after the seventh round of independent seeded changes.

import (
	"fmt"
	"go/ast"
	"go/token"
	"go/types"
	"strings"

	"golang.org/x/tools/go/ssa"
)

func init() {
	experiments["Xprefix"] = func(p *Prog, r *Report) { prefixTrimAgreeRule(p, r, "prefix-trim", p.RepoFuncs()) }
	experiments["Xerrover"] = func(p *Prog, r *Report) { errOverwrittenRule(p, r, "err-overwritten", p.RepoFuncs()) }
	experiments["Xsign"] = func(p *Prog, r *Report) { signFlipRule(p, r, "signflip", p.RepoFuncs()) }
	experiments["Xescape"] = func(p *Prog, r *Report) { escapeUnderLockRule(p, r, "escape-under-lock", p.RepoFuncs()) }
	experiments["Xpercent"] = func(p *Prog, r *Report) { percentCodecRule(p, r, "percent", p.RepoFuncs()) }
	experiments["Xtypeurl"] = func(p *Prog, r *Report) { typeURLLastSlashRule(p, r, "typeurl", p.RepoFuncs()) }
}

func round7GeneralRules(p *Prog, r *Report, scope []*ssa.Function) {
	prefixTrimAgreeRule(p, r, "anchored-prefix-trim", scope)
	errOverwrittenRule(p, r, "anchored-err-overwritten", scope)
	signFlipRule(p, r, "anchored-signflip", scope)
	escapeUnderLockRule(p, r, "anchored-escape-under-lock", scope)
	percentCodecRule(p, r, "anchored-percent", scope)
	typeURLLastSlashRule(p, r, "anchored-typeurl", scope)
}

// ---------- G-PREFIXTRIM: the prefix tested is the prefix removed ----------

// prefixTrimAgreeRule: a strings.TrimPrefix(s, Q) (TrimSuffix) that executes
// only because strings.HasPrefix(s, P) (HasSuffix) held for the same s uses
// the same constant: P == Q. Otherwise the trim is a no-op or cuts something
// else than what was recognised.
func prefixTrimAgreeRule(p *Prog, r *Report, key string, scope []*ssa.Function) {
	n := 0
	for _, fn := range scope {
		eachInstr(fn, func(in ssa.Instruction) {
			c := callCommon(in)
			if c == nil {
				return
			}
			var has string
			switch {
			case isCallToNamed(c, "strings", "", "TrimPrefix"):
				has = "HasPrefix"
			case isCallToNamed(c, "strings", "", "TrimSuffix"):
				has = "HasSuffix"
			default:
				return
			}
			q, isQ := constString(c.Args[1])
			if !isQ {
				return
			}
			subject := canon(c.Args[0])
			// the innermost dominating HasPrefix(subject, P) == true fact
			var guard string
			found := false
			for _, a := range atomsAt(in.Block()) {
				if a.Op != token.ILLEGAL || a.Neg {
					continue
				}
				gc, ok := canon(a.X).(*ssa.Call)
				if !ok || !isCallToNamed(&gc.Call, "strings", "", has) || canon(gc.Call.Args[0]) != subject {
					continue
				}
				if pc, isP := constString(gc.Call.Args[1]); isP {
					guard, found = pc, true // later atoms are nearer: keep the last
				}
			}
			if !found {
				return
			}
			n++
			r.Sites++
			r.Check(guard == q, fmt.Sprintf("%s.%s#%s", key, shortFn(fn), q), "R-PAIR", p.InstrPos(in), "the trimmed constant is the tested constant",
				fmt.Sprintf("in %s strings.%s(…, %q) runs on the branch selected by strings.%s(…, %q): the removed text is not the recognised one — the trim is a no-op (or cuts something else), so what follows sees the un-trimmed value", shortFn(fn), strings.Replace(has, "Has", "Trim", 1), q, has, guard))
		})
	}
	r.OK(key, "R-PAIR", "-", fmt.Sprintf("%d guarded trims, each removes exactly the constant its guard tested", n))
}

// ---------- G-ERROVER: an error assigned and never looked at ----------

var errOverwrittenAllowed = map[string]string{}

// errOverwrittenRule: the error result of a call that the source assigns to a
// variable (it is not `_`) is used somewhere. go/ssa creates an Extract for a
// tuple component only when the source names it; Go rejects a variable that is
// never used, so a named error result without any use can only be one that is
// overwritten before it is read.
func errOverwrittenRule(p *Prog, r *Report, key string, scope []*ssa.Function) {
	n := 0
	for _, fn := range scope {
		eachInstr(fn, func(in ssa.Instruction) {
			ex, ok := in.(*ssa.Extract)
			if !ok || !isErrorType(ex.Type()) {
				return
			}
			if blankInSource(p, fn, ex) {
				return
			}
			n++
			if ex.Referrers() != nil && len(*ex.Referrers()) > 0 {
				// spilled into a cell (captured / address-taken variable): a store that is
				// overwritten in the same block without an intervening load or call
				if len(*ex.Referrers()) == 1 {
					if st, isSt := (*ex.Referrers())[0].(*ssa.Store); isSt {
						if al, isAl := st.Addr.(*ssa.Alloc); isAl && deadStoreInBlock(st, al) {
							r.Sites++
							r.Fail(fmt.Sprintf("%s.%s.%s", key, shortFn(fn), calleeLabelOfTuple(ex)), "R-ERRFLOW", p.InstrPos(in),
								"in "+shortFn(fn)+" the error returned by "+calleeLabelOfTuple(ex)+" is assigned and overwritten by the next assignment before anything reads it: a failure of that call goes unnoticed")
						}
					}
				}
				return
			}
			r.Sites++
			k := fmt.Sprintf("%s.%s.%s", key, shortFn(fn), calleeLabelOfTuple(ex))
			if why, ok := errOverwrittenAllowed[shortFn(fn)+"."+calleeLabelOfTuple(ex)]; ok {
				r.OK(k, "R-ERRFLOW", p.InstrPos(in), "table: "+why)
				return
			}
			r.Fail(k, "R-ERRFLOW", p.InstrPos(in),
				"in "+shortFn(fn)+" the error returned by "+calleeLabelOfTuple(ex)+" is assigned to a variable but never read: it is overwritten by a later assignment before any check, so a failure of that call goes unnoticed and its other results are used as if it had succeeded")
		})
	}
	r.OK(key, "R-ERRFLOW", "-", fmt.Sprintf("%d named error results, each read before it is overwritten", n))
}

// blankInSource: the tuple component is assigned to `_` in the source
// (go/ssa also creates Extracts for `_, _ = f()`).
func blankInSource(p *Prog, fn *ssa.Function, ex *ssa.Extract) bool {
	call, ok := ex.Tuple.(*ssa.Call)
	if !ok {
		return false
	}
	fd, _ := p.Decl(fn)
	if fd == nil || fd.Body == nil {
		return false
	}
	blank := false
	ast.Inspect(fd.Body, func(n ast.Node) bool {
		as, ok := n.(*ast.AssignStmt)
		if !ok || len(as.Rhs) != 1 || ex.Index >= len(as.Lhs) {
			return true
		}
		ce, ok := as.Rhs[0].(*ast.CallExpr)
		if !ok || ce.Lparen != call.Pos() {
			return true
		}
		if id, ok := as.Lhs[ex.Index].(*ast.Ident); ok && id.Name == "_" {
			blank = true
		}
		return true
	})
	return blank
}

func calleeLabelOfTuple(ex *ssa.Extract) string {
	if c, ok := ex.Tuple.(*ssa.Call); ok {
		return calleeLabel(&c.Call)
	}
	return ex.Tuple.Name()
}

// deadStoreInBlock: st stores into local cell al and, later in the same block,
// another store into al follows with no load of al, call or closure creation in between.
func deadStoreInBlock(st *ssa.Store, al *ssa.Alloc) bool {
	after := false
	for _, in := range st.Block().Instrs {
		if in == ssa.Instruction(st) {
			after = true
			continue
		}
		if !after {
			continue
		}
		switch x := in.(type) {
		case *ssa.Store:
			if x.Addr == ssa.Value(al) {
				return true
			}
		case *ssa.UnOp:
			if x.Op == token.MUL && x.X == ssa.Value(al) {
				return false
			}
		case *ssa.Call, *ssa.Go, *ssa.Defer, *ssa.MakeClosure:
			_ = x
			// a call may read the cell through a closure; a pure call cannot, but be conservative
			if al.Heap {
				return false
			}
		}
	}
	return false
}

// ---------- G-SIGNFLIP: wire-decoded unsigned integers keep their value ----------

// signFlipRule: an unsigned integer decoded from bytes with encoding/binary
// (Uint16/32/64, Uvarint: the whole range is the peer's choice) reaches its
// uses only through value-preserving conversions: not uint32 → int32, not
// uint64 → int/int64/uint32. (int(uint32) on the 64-bit targets is value
// preserving.) A value that turns negative or wraps passes upper-bound checks
// and then crashes an allocation or selects the wrong bytes.
func signFlipRule(p *Prog, r *Report, key string, scope []*ssa.Function) {
	n := 0
	isWireUint := func(v ssa.Value) (string, bool) {
		var c *ssa.CallCommon
		switch x := v.(type) {
		case *ssa.Call:
			c = &x.Call
		case *ssa.Extract:
			if cc, ok := x.Tuple.(*ssa.Call); ok && x.Index == 0 {
				c = &cc.Call
			}
		}
		if c == nil {
			return "", false
		}
		o := calleeObj(c)
		if o == nil || o.Pkg() == nil || o.Pkg().Path() != "encoding/binary" {
			return "", false
		}
		switch o.Name() {
		case "Uint16", "Uint32", "Uint64", "Uvarint", "ReadUvarint":
			return "binary." + o.Name(), true
		}
		return "", false
	}
	for _, fn := range scope {
		cnt := 0
		eachInstr(fn, func(in ssa.Instruction) {
			cv, ok := in.(*ssa.Convert)
			if !ok {
				return
			}
			// the chain of conversions down to the decoded value
			preserving := true
			var v ssa.Value = cv
			for {
				c, isC := v.(*ssa.Convert)
				if !isC {
					break
				}
				if !valuePreservingConvert(c) {
					preserving = false
				}
				v = c.X
			}
			src, isWire := isWireUint(v)
			if !isWire {
				return
			}
			// only the outermost conversion of a chain is reported
			if cv.Referrers() != nil {
				for _, ref := range *cv.Referrers() {
					if _, isC := ref.(*ssa.Convert); isC && len(*cv.Referrers()) == 1 {
						return
					}
				}
			}
			n++
			cnt++
			r.Sites++
			r.Check(preserving, fmt.Sprintf("%s.%s#%d", key, shortFn(fn), cnt), "R-UNIT", p.InstrPos(in), "the decoded integer is only widened",
				fmt.Sprintf("in %s the integer decoded with %s reaches %s through a conversion that does not preserve its value (%s): the peer chooses all its bits, so a value with the top bit set turns NEGATIVE (or wraps), passes the upper-bound check that follows and then crashes an allocation (makeslice: len out of range) instead of being rejected", shortFn(fn), src, cv.Type().String(), path(cv)))
		})
	}
	r.OK(key, "R-UNIT", "-", fmt.Sprintf("%d conversions of wire-decoded unsigned integers, all value preserving", n))
}

// ---------- G-ESCAPE: a guarded map or slice handed out while holding its lock ----------

var escapeAllowed = map[string]string{}

// escapeUnderLockRule: a function that takes a lock and releases it by defer
// does not return a map or slice that it merely loaded from a variable it
// shares (a captured variable or a field): the reference outlives the lock,
// the caller reads it while the owner keeps writing under the lock. A copy
// (Clone, append to nil, a fresh make) is what may leave.
func escapeUnderLockRule(p *Prog, r *Report, key string, scope []*ssa.Function) {
	n := 0
	for _, fn := range scope {
		locks := false
		eachInstr(fn, func(in ssa.Instruction) {
			c := callCommon(in)
			if c == nil || c.StaticCallee() == nil {
				return
			}
			f := c.StaticCallee()
			if f.Pkg != nil && f.Pkg.Pkg.Path() == "sync" && (f.Name() == "Lock" || f.Name() == "RLock") {
				locks = true
			}
		})
		if !locks {
			continue
		}
		for _, ret := range returnsOf(fn) {
			for i := range ret.Results {
				for _, rv := range retVals(ret, i) {
					if rv == nil {
						continue
					}
					switch rv.Type().Underlying().(type) {
					case *types.Map, *types.Slice:
					default:
						continue
					}
					n++
					r.Sites++
					v := canon(rv)
					shared := ""
					if u, ok := v.(*ssa.UnOp); ok && u.Op == token.MUL {
						switch a := u.X.(type) {
						case *ssa.FreeVar:
							shared = "the captured variable " + a.Name()
						case *ssa.FieldAddr:
							shared = "the field " + path(u)
						case *ssa.Global:
							shared = "the package variable " + a.Name()
						}
					}
					k := fmt.Sprintf("%s.%s#%d", key, shortFn(fn), i)
					if shared == "" {
						r.OK(k, "A-LOCK", p.InstrPos(ret), "the returned map/slice is a copy or a fresh value")
						continue
					}
					if why, ok := escapeAllowed[shortFn(fn)]; ok {
						r.OK(k, "A-LOCK", p.InstrPos(ret), "table: "+why)
						continue
					}
					r.Fail(k, "A-LOCK", p.InstrPos(ret), "in "+shortFn(fn)+" "+shared+" (a map or slice) is returned as is from a function that holds a lock while reading it: the caller gets the live value, reads it after the lock is released and sees (or races with) every later write made under the lock — the lock protects a copy (Clone), not the reference")
				}
			}
		}
	}
	r.OK(key, "A-LOCK", "-", fmt.Sprintf("%d maps/slices returned from locking functions, none is a shared variable handed out by reference", n))
}

// ---------- G-PERCENT: who may percent-(de)code ----------

var percentAllowed = map[string]string{
	"referenceclient.checkGRPCStatus.PathUnescape": "validates the percent-encoding of the grpc-message trailer as found on the wire (feedback only); PathUnescape is the inverse of grpcutil's encoder — QueryUnescape would also turn '+' into a space",
}

// percentCodecRule: net/url's Escape/Unescape functions are used only by the
// functions in the table. grpc-go and connect-go percent-decode grpc-message
// themselves: another decode (or encode) anywhere on the path of an error
// message applies the codec twice and changes every message containing %XX.
func percentCodecRule(p *Prog, r *Report, key string, scope []*ssa.Function) {
	n := 0
	for _, fn := range scope {
		seen := map[string]bool{}
		eachInstr(fn, func(in ssa.Instruction) {
			c := callCommon(in)
			if c == nil {
				return
			}
			o := calleeObj(c)
			if o == nil || o.Pkg() == nil || o.Pkg().Path() != "net/url" {
				return
			}
			switch o.Name() {
			case "PathUnescape", "QueryUnescape", "PathEscape", "QueryEscape":
			default:
				return
			}
			if seen[o.Name()] {
				return
			}
			seen[o.Name()] = true
			n++
			r.Sites++
			k := fmt.Sprintf("%s.%s.%s", key, shortFn(fn), o.Name())
			if why, ok := percentAllowed[shortFn(fn)+"."+o.Name()]; ok {
				r.OK(k, "A-WHO", p.InstrPos(in), "table: "+why)
				return
			}
			r.Fail(k, "A-WHO", p.InstrPos(in), "in "+shortFn(fn)+" url."+o.Name()+" is applied: the RPC libraries already percent-decode/encode grpc-message exactly once; applying the codec again changes every text that contains a literal %XX sequence (\"50%25\" becomes \"50%\"), so a message does not survive the conversion")
		})
	}
	r.OK(key, "A-WHO", "-", fmt.Sprintf("%d uses of net/url percent coding, all in the table", n))
}

// ---------- G-TYPEURL: the message name follows the LAST slash ----------

// typeURLLastSlashRule: the position at which a type URL is cut is found with
// strings.LastIndex / LastIndexByte, never with the first-occurrence variants:
// a type URL may contain several slashes (host/path/full.Name).
func typeURLLastSlashRule(p *Prog, r *Report, key string, scope []*ssa.Function) {
	n := 0
	for _, fn := range scope {
		eachInstr(fn, func(in ssa.Instruction) {
			c := callCommon(in)
			if c == nil {
				return
			}
			o := calleeObj(c)
			if o == nil || o.Pkg() == nil || o.Pkg().Path() != "strings" || len(c.Args) != 2 {
				return
			}
			switch o.Name() {
			case "Index", "IndexByte", "IndexRune", "LastIndex", "LastIndexByte", "Cut", "SplitN", "Split":
			default:
				return
			}
			if !strings.Contains(strings.ToLower(path(c.Args[0])), "typeurl") {
				return
			}
			isSlash := false
			if s, ok := constString(c.Args[1]); ok && s == "/" {
				isSlash = true
			}
			if k, ok := constInt(c.Args[1]); ok && k == '/' {
				isSlash = true
			}
			if !isSlash {
				return
			}
			n++
			r.Sites++
			r.Check(strings.HasPrefix(o.Name(), "LastIndex"), fmt.Sprintf("%s.%s#%d", key, shortFn(fn), n), "R-WIRE", p.InstrPos(in), "the type URL is cut at its last slash",
				"in "+shortFn(fn)+" a type URL ("+path(c.Args[0])+") is cut with strings."+o.Name()+" at its FIRST slash: the message name is what follows the LAST slash (google.protobuf.Any), so for a URL with a path (host/registry/v1/pkg.Msg) the wrong name is compared")
		})
	}
	r.OK(key, "R-WIRE", "-", fmt.Sprintf("%d cuts of a type URL at a slash, all at the last one", n))
}
