package main

// A-LOCK: must-held / may-held lockset per instruction.
//
// Lock identity is the access path of the mutex (root variable name + field
// chain), e.g. "c.pendingMu". The analysis is a forward dataflow on the SSA
// CFG of each repository function:
//   - x.mu.Lock()/RLock() adds, x.mu.Unlock()/RUnlock() removes;
//   - `defer x.mu.Unlock()` keeps the lock to the exit;
//   - the entry set of a function is the meet over all its static call sites
//     (translated through parameter binding), so `*Locked` helpers are handled
//     by what their callers actually hold, not by their name;
//   - an immediately invoked closure inherits the set at its call; a `go`
//     closure and a closure passed as a value start empty; a deferred closure
//     starts with the function's exit set minus the locks whose deferred
//     unlock is registered after it (defers run LIFO).
// mode must: meet = intersection (proves "held"); mode may: meet = union
// (proves "not held").

import (
	"go/types"
	"sort"
	"strings"

	"golang.org/x/tools/go/ssa"
)

type lockset map[string]bool

func (l lockset) clone() lockset {
	o := lockset{}
	for k := range l {
		o[k] = true
	}
	return o
}

func (l lockset) String() string {
	ks := make([]string, 0, len(l))
	for k := range l {
		ks = append(ks, k)
	}
	sort.Strings(ks)
	return "{" + strings.Join(ks, ", ") + "}"
}

func meet(a, b lockset, must bool) lockset {
	if a == nil {
		return b.clone()
	}
	o := lockset{}
	if must {
		for k := range a {
			if b[k] {
				o[k] = true
			}
		}
	} else {
		for k := range a {
			o[k] = true
		}
		for k := range b {
			o[k] = true
		}
	}
	return o
}

func eqSet(a, b lockset) bool {
	if len(a) != len(b) {
		return false
	}
	for k := range a {
		if !b[k] {
			return false
		}
	}
	return true
}

type LockInfo struct {
	must    bool
	p       *Prog
	fns     []*ssa.Function
	entry   map[*ssa.Function]lockset // nil = top (not yet constrained)
	hasCtx  map[*ssa.Function]bool    // function has at least one analysable call context
	blockIn map[*ssa.BasicBlock]lockset
	exit    map[*ssa.Function]lockset
}

// lockOp classifies a call as Lock/Unlock on a mutex path.
func lockOp(c *ssa.CallCommon) (op string, key string) {
	if c == nil || c.IsInvoke() || len(c.Args) == 0 {
		return "", ""
	}
	f := c.StaticCallee()
	if f == nil || f.Signature.Recv() == nil {
		return "", ""
	}
	rt := f.Signature.Recv().Type()
	if p, ok := rt.(*types.Pointer); ok {
		rt = p.Elem()
	}
	n, ok := rt.(*types.Named)
	if !ok || n.Obj().Pkg() == nil || n.Obj().Pkg().Path() != "sync" {
		return "", ""
	}
	if n.Obj().Name() != "Mutex" && n.Obj().Name() != "RWMutex" {
		return "", ""
	}
	key = path(c.Args[0])
	if fa, ok := c.Args[0].(*ssa.FieldAddr); ok {
		key += "#" + ownerName(fa.X.Type()) + "." + fieldName(fa.X.Type(), fa.Field)
	}
	switch f.Name() {
	case "Lock", "RLock":
		return "lock", key
	case "Unlock", "RUnlock":
		return "unlock", key
	}
	return "", ""
}

// A lock key is "<access path>#<StructType>.<mutexField>": the path identifies
// the object, the suffix the kind of lock (so that c.mu of a connection and
// c.mu of a process are never confused).
func ownerName(t types.Type) string {
	if pt, ok := t.Underlying().(*types.Pointer); ok {
		t = pt.Elem()
	}
	if nt, ok := t.(*types.Named); ok {
		return nt.Obj().Name()
	}
	return "?"
}

// lockKind returns the "<StructType>.<mutexField>" part of a lock key.
func lockKind(key string) string {
	if i := strings.IndexByte(key, '#'); i >= 0 {
		return key[i+1:]
	}
	return ""
}

// lockKeyFor builds the key of mutex field mu of the object denoted by base.
func lockKeyFor(base ssa.Value, mu string) string {
	return path(base) + "." + mu + "#" + ownerName(base.Type()) + "." + mu
}

func NewLockInfo(p *Prog, must bool) *LockInfo {
	li := &LockInfo{must: must, p: p, entry: map[*ssa.Function]lockset{}, hasCtx: map[*ssa.Function]bool{},
		blockIn: map[*ssa.BasicBlock]lockset{}, exit: map[*ssa.Function]lockset{}}
	li.fns = p.RepoFuncs()
	li.solve()
	return li
}

func (li *LockInfo) solve() {
	inRepo := map[*ssa.Function]bool{}
	for _, f := range li.fns {
		inRepo[f] = true
	}
	// Functions used as values (callbacks, method values, `go` targets) have
	// an unknown calling context.
	valueUse := map[*ssa.Function]bool{}
	for _, f := range li.fns {
		eachInstr(f, func(in ssa.Instruction) {
			var calleeVal ssa.Value
			if c := callCommon(in); c != nil && !c.IsInvoke() {
				calleeVal = c.Value
			}
			_, isGo := in.(*ssa.Go)
			for _, op := range in.Operands(nil) {
				if *op == nil {
					continue
				}
				v := *op
				if v == calleeVal && !isGo {
					continue
				}
				switch x := v.(type) {
				case *ssa.Function:
					valueUse[x] = true
				case *ssa.MakeClosure:
					if fn, ok := x.Fn.(*ssa.Function); ok {
						valueUse[fn] = true
					}
				}
			}
		})
	}
	for iter := 0; iter < 60; iter++ {
		changed := false
		newEntry := map[*ssa.Function]lockset{}
		ctx := map[*ssa.Function]bool{}
		addCtx := func(callee *ssa.Function, s lockset) {
			if !inRepo[callee] {
				return
			}
			ctx[callee] = true
			newEntry[callee] = meet(newEntry[callee], s, li.must)
		}
		for _, f := range li.fns {
			in := li.entry[f]
			if in == nil {
				in = lockset{}
			}
			li.flow(f, in, addCtx)
		}
		for _, f := range li.fns {
			e := newEntry[f]
			if e == nil {
				e = lockset{}
			}
			if li.must && (valueUse[f] || !ctx[f]) {
				e = lockset{} // unknown context: nothing is known to be held
			}
			if old, ok := li.entry[f]; !ok || !eqSet(old, e) {
				changed = true
			}
			li.entry[f] = e
			li.hasCtx[f] = ctx[f]
		}
		if !changed {
			break
		}
	}
}

// flow runs the intra-procedural dataflow for f and reports call contexts.
func (li *LockInfo) flow(f *ssa.Function, in lockset, addCtx func(*ssa.Function, lockset)) {
	if len(f.Blocks) == 0 {
		return
	}
	state := map[*ssa.BasicBlock]lockset{f.Blocks[0]: in.clone()}
	work := []*ssa.BasicBlock{f.Blocks[0]}
	inWork := map[*ssa.BasicBlock]bool{f.Blocks[0]: true}
	outOf := map[*ssa.BasicBlock]lockset{}
	for len(work) > 0 {
		b := work[0]
		work = work[1:]
		inWork[b] = false
		cur := state[b].clone()
		for _, ins := range b.Instrs {
			li.step(ins, cur, nil)
		}
		outOf[b] = cur
		for _, s := range b.Succs {
			var ns lockset
			if old, ok := state[s]; ok {
				ns = meet(old, cur, li.must)
				if eqSet(ns, old) {
					continue
				}
			} else {
				ns = cur.clone()
			}
			state[s] = ns
			if !inWork[s] {
				inWork[s] = true
				work = append(work, s)
			}
		}
	}
	// exit set: meet over return blocks (state before RunDefers)
	var exit lockset
	for _, b := range f.Blocks {
		st, ok := state[b]
		if !ok {
			continue
		}
		li.blockIn[b] = st
		cur := st.clone()
		for _, ins := range b.Instrs {
			if _, isRet := ins.(*ssa.Return); isRet {
				exit = meet(exit, cur, li.must)
			}
			if _, isRD := ins.(*ssa.RunDefers); isRD {
				// keep the pre-defer state for the exit set
				exit = meet(exit, cur, li.must)
			}
			li.step(ins, cur, func(callee *ssa.Function, s lockset) {
				if addCtx != nil {
					addCtx(callee, s)
				}
			})
		}
	}
	if exit == nil {
		exit = lockset{}
	}
	li.exit[f] = exit
	// deferred closures / deferred static calls
	if addCtx != nil {
		for _, b := range f.Blocks {
			for _, ins := range b.Instrs {
				d, ok := ins.(*ssa.Defer)
				if !ok {
					continue
				}
				callee := staticOrClosure(&d.Call)
				if callee == nil {
					continue
				}
				held := exit.clone()
				// remove locks whose deferred unlock is registered after d
				for _, b2 := range f.Blocks {
					for _, i2 := range b2.Instrs {
						d2, ok := i2.(*ssa.Defer)
						if !ok || d2 == d {
							continue
						}
						if op, key := lockOp(&d2.Call); op == "unlock" && held[key] {
							after := false
							if li.must {
								// may be registered after d on some path
								after = reachesInstr(d, d2)
							} else {
								ok2, _ := mustPass(d, func(x ssa.Instruction) bool { return x == ssa.Instruction(d2) })
								after = ok2
							}
							if after {
								delete(held, key)
							}
						}
					}
				}
				addCtx(callee, translate(held, &d.Call, callee))
			}
		}
	}
}

func staticOrClosure(c *ssa.CallCommon) *ssa.Function {
	if c.IsInvoke() {
		return nil
	}
	switch v := c.Value.(type) {
	case *ssa.Function:
		return v
	case *ssa.MakeClosure:
		fn, _ := v.Fn.(*ssa.Function)
		return fn
	}
	return nil
}

// reachesInstr: is there a path from just after a to b?
func reachesInstr(a, b ssa.Instruction) bool {
	ba, bb := a.Block(), b.Block()
	if ba == bb {
		ia, ib := -1, -1
		for i, in := range ba.Instrs {
			if in == a {
				ia = i
			}
			if in == b {
				ib = i
			}
		}
		if ib > ia {
			return true
		}
	}
	for _, s := range ba.Succs {
		if reachable(s, bb) {
			return true
		}
	}
	return false
}

// step applies one instruction to the lockset; onCall reports call contexts.
func (li *LockInfo) step(ins ssa.Instruction, cur lockset, onCall func(*ssa.Function, lockset)) {
	switch x := ins.(type) {
	case *ssa.Call:
		if op, key := lockOp(&x.Call); op == "lock" {
			cur[key] = true
			return
		} else if op == "unlock" {
			delete(cur, key)
			return
		}
		if onCall != nil {
			if callee := staticOrClosure(&x.Call); callee != nil {
				onCall(callee, translate(cur, &x.Call, callee))
			}
		}
	case *ssa.Go:
		if onCall != nil {
			if callee := staticOrClosure(&x.Call); callee != nil {
				onCall(callee, lockset{})
			}
		}
	case *ssa.MakeClosure:
		// a closure handed to someone else may be invoked synchronously while
		// the creator's locks are held (may-analysis only)
		if onCall != nil && !li.must {
			if fn, ok := x.Fn.(*ssa.Function); ok {
				onCall(fn, cur.clone())
			}
		}
	}
}

// translate maps the caller's lock paths into the callee's variable names.
func translate(held lockset, c *ssa.CallCommon, callee *ssa.Function) lockset {
	out := lockset{}
	if len(held) == 0 {
		return out
	}
	// closures share variable names with their parent
	if callee.Parent() != nil {
		for k := range held {
			out[k] = true
		}
	}
	for i, a := range c.Args {
		if i >= len(callee.Params) {
			break
		}
		ap := path(a)
		pn := callee.Params[i].Name()
		for k := range held {
			kp, kind := k, ""
			if j := strings.IndexByte(k, '#'); j >= 0 {
				kp, kind = k[:j], k[j:]
			}
			if kp == ap {
				out[pn+kind] = true
			} else if strings.HasPrefix(kp, ap+".") {
				out[pn+kp[len(ap):]+kind] = true
			}
		}
	}
	return out
}

// At returns the lockset holding immediately before instruction ins.
func (li *LockInfo) At(ins ssa.Instruction) lockset {
	b := ins.Block()
	st, ok := li.blockIn[b]
	if !ok {
		return lockset{} // unreachable block
	}
	cur := st.clone()
	for _, i2 := range b.Instrs {
		if i2 == ins {
			return cur
		}
		li.step(i2, cur, nil)
	}
	return cur
}

// FieldAccess is a load or store address computation on a guarded field.
type FieldAccess struct {
	Fn    *ssa.Function
	Instr ssa.Instruction
	Base  ssa.Value // the struct (pointer) the field is selected from
	Field *types.Var
}

// fieldAccesses enumerates every FieldAddr/Field instruction selecting f.
func fieldAccesses(fns []*ssa.Function, f *types.Var) []FieldAccess {
	var out []FieldAccess
	for _, fn := range fns {
		eachInstr(fn, func(in ssa.Instruction) {
			switch x := in.(type) {
			case *ssa.FieldAddr:
				if fieldVar(x.X.Type(), x.Field) == f {
					out = append(out, FieldAccess{fn, in, x.X, f})
				}
			case *ssa.Field:
				if fieldVar(x.X.Type(), x.Field) == f {
					out = append(out, FieldAccess{fn, in, x.X, f})
				}
			}
		})
	}
	return out
}

// isFresh reports whether v is an object allocated in the current function
// that has not been shared yet (constructor exemption): a composite literal /
// new(T) whose only uses so far are field initialisations.
func isFresh(v ssa.Value) bool {
	switch x := v.(type) {
	case *ssa.Alloc:
		return true
	case *ssa.UnOp:
		// load of a local variable cell that holds a fresh allocation
		if a, ok := x.X.(*ssa.Alloc); ok {
			_ = a
			return false
		}
	}
	return false
}
