package main

import (
	"fmt"
	"go/token"
	"go/types"
	"strings"

	"golang.org/x/tools/go/ssa"
)

const pkgRS = "internal/app/referenceserver"
const pkgRC = "internal/app/referenceclient"
const pkgGen = "internal/gen/proto/go/connectrpc/conformance/v1"

func init() {
	register(&propMeta{
		ID: "C17",
		Explain: "Decides structural necessary conditions of 'raw HTTP test payloads reach the wire exactly as specified': " +
			"(typestate) every call that starts or continues a normal response on the wrapped writer is on the canSendResponse()==true edge, the raw response is written only on the rawResponse()!=nil edge, setRawResponse stores only while no normal response has started, canSendResponse latches startedResponse only while no raw response is set, both fields only under the writer's mutex; " +
			"(finish-order) handler headers are cleared and the snapshot restored before the raw headers are added, trailers are declared before WriteHeader, the body follows WriteHeader, trailers follow the body, status 200 is substituted exactly for StatusCode == 0; " +
			"(cover) every field of RawHTTPResponse / RawHTTPRequest / StreamItem / MessageContents the statement names is read by the code that emits it; " +
			"(noflow) of the request the client would have sent only its context, URL scheme and host reach the substituted request, its body is drained and closed, and the substituted request is what is sent; " +
			"(encoder) explicit length is chosen by presence of the length field (not its value), the computed length is the buffered payload's length, the flags range check precedes any write, the compressor comes from the item's own compression and is closed on every successful path; " +
			"(recorder) once a raw response is recorded the handler is not invoked and the request stream is drained. " +
			"It does NOT decide the bytes on the wire nor invertibility of the encoders (library behaviour).",
		NotDecided: []string{"the exact bytes net/http puts on the wire", "invertibility of the body encoders (rests on C20 and library behaviour)", "HTTP/1.1 vs HTTP/2 trailer framing decisions inside net/http beyond the declared-before-WriteHeader ordering"},
		Assume:     []string{"net/http snapshots response headers (including the Trailer declaration) at WriteHeader", "lock identity is the access path"},
		Trusted:    commonTrusted,
		Run:        runC17,
	})
	frr, fb := "internal/app/referenceserver/raw_response.go", "internal/raw_http_body.go"
	addMutants(
		Mutant{ID: "C17-length-by-value", Prop: "C17", File: fb,
			Old: "\t\tif item.Length != nil {\n\t\t\tbinary.BigEndian.PutUint32(prefix[1:], item.GetLength())", New: "\t\tif length := item.GetLength(); length != 0 {\n\t\t\tbinary.BigEndian.PutUint32(prefix[1:], length)",
			Expect: []string{"encoder.length-presence"}, Note: "seed C17-1: explicit length 0 treated as absent"},
		Mutant{ID: "C17-trailers-late", Prop: "C17", File: frr,
			Old:    "\tfor _, hdr := range resp.Trailers {\n\t\tr.respWriter.Header().Add(\"Trailer\", hdr.Name)\n\t}\n\tstatusCode := int(resp.StatusCode)",
			New:    "\tstatusCode := int(resp.StatusCode)",
			Expect: []string{"finish-order.trailers-declared"}, Note: "seed C17-2 (variant): trailers no longer declared before WriteHeader"},
		Mutant{ID: "C17-empty-skip", Prop: "C17", File: fb,
			Old: "\tcompressor, err := compression.GetCompressor(contents.Compression)", New: "\tif len(msgBytes) == 0 {\n\t\treturn nil\n\t}\n\tcompressor, err := compression.GetCompressor(contents.Compression)",
			Expect: []string{"encoder.compress-always"}, Note: "seed C20-2: empty payload bypasses the compressor"},
		Mutant{ID: "C17-write-while-raw", Prop: "C17", File: frr,
			Old: "func (r *rawResponseWriter) WriteHeader(statusCode int) {\n\tif r.canSendResponse() {\n\t\tr.respWriter.WriteHeader(statusCode)\n\t}\n}", New: "func (r *rawResponseWriter) WriteHeader(statusCode int) {\n\tr.respWriter.WriteHeader(statusCode)\n}",
			Expect: []string{"typestate.guarded"}, Note: "handler status reaches the wire although a raw response is pending"},
		Mutant{ID: "C17-set-after-start", Prop: "C17", File: frr,
			Old: "\tif r.startedResponse {\n\t\treturn false\n\t}\n\tr.rawResp = resp\n\treturn true", New: "\tr.rawResp = resp\n\treturn !r.startedResponse",
			Expect: []string{"typestate.set-only-before-start"}, Note: "raw response recorded after a normal response started"},
		Mutant{ID: "C17-status-default", Prop: "C17", File: frr,
			Old: "\tif statusCode == 0 {\n\t\tstatusCode = 200\n\t}", New: "\tif statusCode < 200 {\n\t\tstatusCode = 200\n\t}",
			Expect: []string{"finish-order.status-default"}, Note: "1xx raw status codes silently replaced by 200"},
		Mutant{ID: "C17-handler-still-runs", Prop: "C17", File: frr,
			Old:    "\t\t\t\t\treturn nil, err\n\t\t\t\t}\n\t\t\t\treturn nil, connect.NewError(connect.CodeAborted, errors.New(\"use raw response instead\"))\n\t\t\t}\n\t\t}\n\t\treturn next(ctx, req)",
			New:    "\t\t\t\t\treturn nil, err\n\t\t\t\t}\n\t\t\t}\n\t\t}\n\t\treturn next(ctx, req)",
			Expect: []string{"recorder.handler-skipped"}, Note: "handler invoked although a raw response was recorded"},
		Mutant{ID: "C17-orig-headers-leak", Prop: "C17", File: "internal/app/referenceclient/raw_request.go",
			Old: "\tinternal.AddHeaders(r.rawRequest.Headers, req.Header)\n", New: "\treq.Header = orig.Header.Clone()\n\tinternal.AddHeaders(r.rawRequest.Headers, req.Header)\n",
			Expect: []string{"noflow.orig"}, Note: "headers of the request the client would have built leak into the raw request"},
		Mutant{ID: "C17-flags-late", Prop: "C17", File: fb,
			Old: "\t\tif item.Flags > 255 {\n\t\t\treturn fmt.Errorf(\"message #%d: flags is out of range: %d, should be [0,255]\", i+1, item.Flags)\n\t\t}\n\t\tprefix[0] = byte(item.Flags)", New: "\t\tprefix[0] = byte(item.Flags)",
			Expect: []string{"encoder.flags-range"}, Note: "out-of-range flags silently truncated"},
	)
}

func runC17(p *Prog, r *Report) {
	must := NewLockInfo(p, true)
	rawResp := p.Field(pkgRS, "rawResponseWriter", "rawResp")
	started := p.Field(pkgRS, "rawResponseWriter", "startedResponse")
	respWriter := p.Field(pkgRS, "rawResponseWriter", "respWriter")
	// ---- typestate ----
	n := ruleLocked(p, r, must, lockRule{Key: "typestate.locked.rawResp", Field: rawResp, Mu: "mu"})
	n += ruleLocked(p, r, must, lockRule{Key: "typestate.locked.startedResponse", Field: started, Mu: "mu"})
	r.Floor("locked-accesses", n, 5)
	ruleLatch(p, r, "typestate.started-latch", started)
	canSend := p.TypeFunc(pkgRS, "rawResponseWriter", "canSendResponse")
	rawRespM := p.TypeFunc(pkgRS, "rawResponseWriter", "rawResponse")
	isCanSendTrue := func(a Atom) bool {
		m, v := boolTestOn(a, isCallResult(func(c *ssa.CallCommon) bool { return calleeObj(c) == canSend }))
		return m && v
	}
	isRawNonNil := func(a Atom) bool {
		m, isNil := nilTestOn(a, isCallResult(func(c *ssa.CallCommon) bool { return calleeObj(c) == rawRespM }))
		return m && !isNil
	}
	guarded, total := 0, 0
	for _, name := range []string{"Write", "WriteHeader", "Flush", "finish"} {
		fn := p.Func(pkgRS, "rawResponseWriter", name)
		if fn == nil {
			r.Undecided("typestate.guarded."+name, "R-GUARD", "method not found")
			continue
		}
		r.Func(funcName(fn))
		eachInstr(fn, func(in ssa.Instruction) {
			c := callCommon(in)
			if c == nil || !c.IsInvoke() {
				return
			}
			m := c.Method.Name()
			if m != "Write" && m != "WriteHeader" && m != "Flush" {
				return
			}
			// receiver derives from the wrapped writer
			if !derivesFromField(c.Value, respWriter, 0) {
				return
			}
			total++
			r.Sites++
			ok := guardedBy(in, isCanSendTrue)
			if name == "finish" {
				ok = guardedBy(in, isRawNonNil)
			}
			if ok {
				guarded++
			} else {
				r.Fail("typestate.guarded."+name, "R-GUARD", p.InstrPos(in), fmt.Sprintf("%s on the wrapped response writer in rawResponseWriter.%s is not on the %s edge: handler output and a raw response could both reach the wire", m, name, map[bool]string{true: "rawResponse() != nil", false: "canSendResponse() == true"}[name == "finish"]))
			}
		})
	}
	if guarded == total {
		r.OK("typestate.guarded", "R-GUARD", "-", fmt.Sprintf("all %d write-side call(s) on the wrapped writer are guarded by the raw/normal arbitration", total))
	}
	r.Floor("guarded-writer-calls", total, 4)
	if fn := p.Func(pkgRS, "rawResponseWriter", "setRawResponse"); fn != nil {
		for _, st := range storesToField([]*ssa.Function{fn}, rawResp) {
			r.Sites++
			r.Check(guardedBy(st.Instr, func(a Atom) bool { m, v := boolTestOn(a, isLoadOfField(started)); return m && !v }), "typestate.set-only-before-start", "R-GUARD", p.InstrPos(st.Instr),
				"raw response stored on the !startedResponse edge", "setRawResponse can record a raw response after a normal response has started")
		}
		// and reports failure on the started edge
		okRet := false
		for _, ret := range returnsOf(fn) {
			if guardedBy(ret, func(a Atom) bool { m, v := boolTestOn(a, isLoadOfField(started)); return m && v }) {
				for _, v := range retVals(ret, 0) {
					if b, isC := constBool(v); isC && !b {
						okRet = true
					}
				}
			}
		}
		r.Sites++
		r.Check(okRet, "typestate.set-reports-failure", "R-GUARD", p.Pos(fn.Pos()), "returns false once a response started", "setRawResponse does not report failure when a normal response already started")
	} else {
		r.Undecided("typestate.set-only-before-start", "R-GUARD", "setRawResponse not found")
	}
	if fn := p.Func(pkgRS, "rawResponseWriter", "canSendResponse"); fn != nil {
		for _, st := range storesToField([]*ssa.Function{fn}, started) {
			r.Sites++
			r.Check(guardedBy(st.Instr, func(a Atom) bool { m, isNil := nilTestOn(a, isLoadOfField(rawResp)); return m && isNil }), "typestate.start-only-without-raw", "R-GUARD", p.InstrPos(st.Instr),
				"startedResponse latched on the rawResp == nil edge", "canSendResponse can start a normal response although a raw response is set")
		}
	}

	// ---- finish order ----
	finish := p.Func(pkgRS, "rawResponseWriter", "finish")
	if finish == nil {
		r.Undecided("finish-order", "R-ORDER", "finish not found")
	} else {
		addHeaders := isCallNamed(internalPath, "", "AddHeaders")
		addTrailers := isCallNamed(internalPath, "", "AddTrailers")
		writeBody := orPred(isCallNamed(internalPath, "", "WriteRawMessageContents"), isCallNamed(internalPath, "", "WriteRawStreamContents"))
		isWH := func(in ssa.Instruction) bool {
			c := callCommon(in)
			return c != nil && c.IsInvoke() && c.Method.Name() == "WriteHeader"
		}
		isDeclare := func(in ssa.Instruction) bool {
			c := callCommon(in)
			if c == nil || c.IsInvoke() {
				return false
			}
			f := c.StaticCallee()
			if f == nil || f.Name() != "Add" || len(c.Args) != 3 {
				return false
			}
			s, ok := constString(c.Args[1])
			return ok && strings.EqualFold(s, "Trailer")
		}
		isDelete := func(in ssa.Instruction) bool {
			c := callCommon(in)
			if c == nil {
				return false
			}
			b, ok := c.Value.(*ssa.Builtin)
			return ok && b.Name() == "delete"
		}
		isRestore := func(in ssa.Instruction) bool { _, ok := in.(*ssa.MapUpdate); return ok }
		whs := findInstrs(finish, isWH)
		ahs := findInstrs(finish, addHeaders)
		ats := findInstrs(finish, addTrailers)
		r.Sites += 6
		if len(whs) != 1 || len(ahs) != 1 || len(ats) != 1 {
			r.Fail("finish-order.shape", "R-ORDER", p.Pos(finish.Pos()), fmt.Sprintf("expected exactly one WriteHeader, AddHeaders and AddTrailers call in finish, found %d/%d/%d", len(whs), len(ahs), len(ats)))
		} else {
			wh, ah, at := whs[0], ahs[0], ats[0]
			before := func(as []ssa.Instruction, b ssa.Instruction) bool { // every a happens only before b
				for _, a := range as {
					ok, _ := mustPass(a, func(x ssa.Instruction) bool { return x == b })
					if !ok || reachesInstr(b, a) {
						return false
					}
				}
				return len(as) > 0
			}
			r.Check(before(findInstrs(finish, isDelete), ah) && before(findInstrs(finish, func(in ssa.Instruction) bool { return isRestore(in) && !reachesInstr(ah, in) }), ah), "finish-order.clear-restore-first", "R-ORDER", p.InstrPos(ah),
				"handler headers are deleted and the snapshot restored before the raw headers are added", "the raw response's headers are added before the handler's headers were cleared / the snapshot restored: handler-set headers could reach the wire or raw headers be wiped")
			r.Check(precededBy(wh, func(x ssa.Instruction) bool { return x == ah }), "finish-order.headers-before-status", "R-ORDER", p.InstrPos(wh), "raw headers precede WriteHeader", "WriteHeader is sent before the raw headers are added: they would be dropped")
			decl := findInstrs(finish, isDeclare)
			r.Check(before(decl, wh), "finish-order.trailers-declared", "R-ORDER", p.InstrPos(wh), "trailer names are declared (Trailer header) only before WriteHeader", "the raw response's trailers are not declared in the Trailer header before WriteHeader: over HTTP/1.1 with a short body net/http then picks Content-Length framing and silently drops every trailer")
			bodies := findInstrs(finish, writeBody)
			okBody := len(bodies) == 2
			for _, b := range bodies {
				if !precededBy(b, func(x ssa.Instruction) bool { return x == wh }) || !reachesInstr(b, at) || reachesInstr(at, b) {
					okBody = false
				}
			}
			r.Check(okBody, "finish-order.body-then-trailers", "R-ORDER", p.InstrPos(at), "WriteHeader → body (unary or stream) → AddTrailers", "the raw body is not written between WriteHeader and the trailers (for both the unary and the stream variant)")
			// arguments: AddHeaders(resp.Headers, ...), AddTrailers(resp.Trailers, ...)
			hf, tf := p.Field(pkgGen, "RawHTTPResponse", "Headers"), p.Field(pkgGen, "RawHTTPResponse", "Trailers")
			r.Check(loadedField(callCommon(ah).Args[0]) == hf && loadedField(callCommon(at).Args[0]) == tf, "finish-order.wire", "R-WIRE", p.InstrPos(ah), "AddHeaders←Headers, AddTrailers←Trailers", "headers and trailers of the raw response are swapped or taken from the wrong field")
			// status default
			sc := p.Field(pkgGen, "RawHTTPResponse", "StatusCode")
			arg := callCommon(wh).Args[0]
			okS := false
			if phi, isPhi := arg.(*ssa.Phi); isPhi && len(phi.Edges) == 2 {
				var hasField, has200 bool
				for i, e := range phi.Edges {
					if c, isC := constInt(e); isC && c == 200 {
						pred := phi.Block().Preds[i]
						if hasAtom(atomsAt(pred), func(a Atom) bool {
							if a.Op != token.EQL {
								return false
							}
							z, isZ := constInt(a.Y)
							return isZ && z == 0 && loadedField(canon(a.X)) == sc
						}) {
							has200 = true
						}
					} else if loadedField(canon(e)) == sc {
						hasField = true
					}
				}
				okS = hasField && has200
			}
			r.Check(okS, "finish-order.status-default", "R-GUARD", p.InstrPos(wh), "status = StatusCode, 200 exactly on StatusCode == 0", "the status written is not `StatusCode, or 200 exactly when StatusCode == 0`")
		}
	}

	// ---- cover ----
	roundTrip := p.Func(pkgRC, "rawRequestSender", "RoundTrip")
	wmsg := p.Func("internal", "", "WriteRawMessageContents")
	wstr := p.Func("internal", "", "WriteRawStreamContents")
	cover := func(key string, fns []*ssa.Function, typ string, fields ...string) {
		for _, fld := range fields {
			f := p.Field(pkgGen, typ, fld)
			r.Sites++
			if f == nil {
				r.Undecided(key+"."+typ+"."+fld, "R-COVER", "field not found")
				continue
			}
			read := false
			for _, fn := range fns {
				if fn == nil {
					continue
				}
				for _, g := range withClosures(fn) {
					eachInstr(g, func(in ssa.Instruction) {
						if v, ok := in.(ssa.Value); ok && loadedField(v) == f {
							read = true
						}
						if fa, ok := in.(*ssa.FieldAddr); ok && fieldVar(fa.X.Type(), fa.Field) == f {
							read = true
						}
					})
				}
			}
			r.Check(read, key+"."+typ+"."+fld, "R-COVER", "-", typ+"."+fld+" is read by the emitting code", "field "+typ+"."+fld+" of the raw payload definition is never read by the code that emits it: that part of the prescription cannot reach the wire")
		}
	}
	cover("cover.response", []*ssa.Function{finish}, "RawHTTPResponse", "StatusCode", "Headers", "Trailers", "Body")
	cover("cover.response", []*ssa.Function{finish}, "RawHTTPResponse_Unary", "Unary")
	cover("cover.response", []*ssa.Function{finish}, "RawHTTPResponse_Stream", "Stream")
	cover("cover.request", []*ssa.Function{roundTrip}, "RawHTTPRequest", "Verb", "Uri", "Headers", "RawQueryParams", "EncodedQueryParams", "Body")
	cover("cover.request", []*ssa.Function{roundTrip}, "RawHTTPRequest_Unary", "Unary")
	cover("cover.request", []*ssa.Function{roundTrip}, "RawHTTPRequest_Stream", "Stream")
	cover("cover.request", []*ssa.Function{roundTrip}, "RawHTTPRequest_EncodedQueryParam", "Name", "Value", "Base64Encode")
	cover("cover.encoder", []*ssa.Function{wstr}, "StreamContents_StreamItem", "Flags", "Length", "Payload")
	cover("cover.encoder", []*ssa.Function{wstr}, "StreamContents", "Items")
	cover("cover.encoder", []*ssa.Function{wmsg}, "MessageContents", "Data", "Compression")
	cover("cover.encoder", []*ssa.Function{wmsg}, "MessageContents_Binary", "Binary")
	cover("cover.encoder", []*ssa.Function{wmsg}, "MessageContents_BinaryMessage", "BinaryMessage")
	cover("cover.encoder", []*ssa.Function{wmsg}, "MessageContents_Text", "Text")

	// ---- noflow ----
	if roundTrip == nil {
		r.Undecided("noflow.orig", "R-NOFLOW", "RoundTrip not found")
	} else {
		r.Func(funcName(roundTrip))
		orig := roundTrip.Params[1]
		bad := ""
		var visit func(v ssa.Value, what string)
		visit = func(v ssa.Value, what string) {
			refs := v.Referrers()
			if refs == nil {
				return
			}
			for _, ref := range *refs {
				switch x := ref.(type) {
				case *ssa.FieldAddr:
					fn := fieldName(x.X.Type(), x.Field)
					switch {
					case what == "orig" && (fn == "URL" || fn == "Body"):
						// loads of the field
						for _, r2 := range *x.Referrers() {
							if u, ok := r2.(*ssa.UnOp); ok && u.Op == token.MUL {
								visit(u, "orig."+fn)
							} else {
								bad = "orig." + fn + " is written or its address escapes at " + p.InstrPos(r2)
							}
						}
					case what == "orig.URL" && (fn == "Scheme" || fn == "Host"):
					default:
						bad = what + "." + fn + " of the request the client would have sent is used at " + p.InstrPos(ref)
					}
				case *ssa.Store:
					if x.Val == v {
						// captured by a closure cell: follow loads
						if a, ok := x.Addr.(*ssa.Alloc); ok {
							for _, r2 := range *a.Referrers() {
								if u, ok := r2.(*ssa.UnOp); ok && u.Op == token.MUL {
									visit(u, what)
								}
								if mc, ok := r2.(*ssa.MakeClosure); ok {
									fn := mc.Fn.(*ssa.Function)
									for i, b := range mc.Bindings {
										if b == ssa.Value(a) {
											for _, r3 := range *fn.FreeVars[i].Referrers() {
												if u, ok := r3.(*ssa.UnOp); ok && u.Op == token.MUL {
													visit(u, what)
												}
											}
										}
									}
								}
							}
						}
					}
				case ssa.CallInstruction:
					c := x.Common()
					name := ""
					if c.IsInvoke() {
						name = c.Method.Name()
					} else if f := c.StaticCallee(); f != nil {
						name = f.Name()
					}
					switch {
					case what == "orig" && name == "Context":
					case what == "orig.Body" && (name == "Close" || name == "Copy"):
					default:
						bad = what + " is passed to " + name + " at " + p.InstrPos(ref)
					}
				case *ssa.BinOp, *ssa.If, *ssa.DebugRef, *ssa.MakeInterface, *ssa.ChangeInterface:
					if mi, ok := ref.(ssa.Value); ok {
						if _, isBin := ref.(*ssa.BinOp); !isBin {
							visit(mi, what)
						}
					}
				default:
					bad = fmt.Sprintf("%s is used by %T at %s", what, ref, p.InstrPos(ref))
				}
			}
		}
		visit(orig, "orig")
		r.Sites++
		r.Check(bad == "", "noflow.orig", "R-NOFLOW", p.Pos(roundTrip.Pos()), "only context, URL scheme/host and the body (drain, close) of the original request are used", "data of the request the client would have built reaches the raw request: "+bad)
		// the substituted request is what is sent
		var newReq ssa.Value
		eachInstr(roundTrip, func(in ssa.Instruction) {
			if c, ok := in.(*ssa.Call); ok && isCallToNamed(&c.Call, "net/http", "", "NewRequestWithContext") {
				newReq = c
			}
		})
		okSend := false
		eachInstr(roundTrip, func(in ssa.Instruction) {
			c := callCommon(in)
			if c != nil && c.IsInvoke() && c.Method.Name() == "RoundTrip" && newReq != nil {
				if ex, ok := canon(c.Args[0]).(*ssa.Extract); ok && ex.Tuple == newReq && ex.Index == 0 {
					okSend = true
				}
			}
		})
		r.Sites++
		r.Check(okSend, "noflow.sends-substitute", "R-WIRE", p.Pos(roundTrip.Pos()), "transport.RoundTrip receives the newly built request", "the transport is not handed the substituted request")
		// verb and headers
		verb, hdrs := p.Field(pkgGen, "RawHTTPRequest", "Verb"), p.Field(pkgGen, "RawHTTPRequest", "Headers")
		okV := false
		if c, ok := newReq.(*ssa.Call); ok {
			okV = loadedField(c.Call.Args[1]) == verb
		}
		okH := false
		for _, in := range findInstrs(roundTrip, isCallNamed(internalPath, "", "AddHeaders")) {
			if loadedField(callCommon(in).Args[0]) == hdrs {
				okH = true
			}
		}
		r.Sites += 2
		r.Check(okV && okH, "noflow.verb-headers", "R-WIRE", p.Pos(roundTrip.Pos()), "method ← Verb, headers ← Headers", "the raw request's method or headers are not taken from the raw request definition")
	}

	// ---- encoder ----
	if wstr == nil || wmsg == nil {
		r.Undecided("encoder", "R-GUARD", "encoders not found")
	} else {
		r.Func(funcName(wstr))
		r.Func(funcName(wmsg))
		length := p.Field(pkgGen, "StreamContents_StreamItem", "Length")
		flags := p.Field(pkgGen, "StreamContents_StreamItem", "Flags")
		isPut := func(in ssa.Instruction) bool {
			c := callCommon(in)
			if c == nil {
				return false
			}
			f := c.StaticCallee()
			return f != nil && f.Name() == "PutUint32"
		}
		puts := findInstrs(wstr, isPut)
		okExplicit, okComputed := false, false
		for _, pu := range puts {
			r.Sites++
			arg := callCommon(pu).Args[len(callCommon(pu).Args)-1]
			presentEdge := guardedBy(pu, func(a Atom) bool { m, isNil := nilTestOn(a, isLoadOfField(length)); return m && !isNil })
			absentEdge := guardedBy(pu, func(a Atom) bool { m, isNil := nilTestOn(a, isLoadOfField(length)); return m && isNil })
			if loadedField(canon(arg)) == length || derivesFromField(arg, length, 0) {
				if presentEdge {
					okExplicit = true
				} else {
					r.Fail("encoder.length-presence", "R-GUARD", p.InstrPos(pu), "the explicit envelope length is not selected by the presence of StreamItem.Length (a nil test): an explicit length of 0 would be treated as absent and replaced by the computed length")
				}
			} else if absentEdge {
				// computed: uint32(buf.Len())
				if c, ok := stripAllConv(arg).(*ssa.Call); ok {
					if f := c.Call.StaticCallee(); f != nil && f.Name() == "Len" {
						okComputed = true
					}
				}
			}
		}
		r.Check(okExplicit, "encoder.length-presence", "R-GUARD", p.Pos(wstr.Pos()), "explicit length written on the Length != nil edge", "no envelope prefix is written from an explicitly given length on the Length != nil edge")
		r.Check(okComputed, "encoder.length-computed", "R-GUARD", p.Pos(wstr.Pos()), "computed length = buffered payload's Len() on the Length == nil edge", "the computed envelope length is not the length of the buffered (compressed) payload on the Length == nil edge")
		// flags range check precedes any write
		okFlags := true
		nw := 0
		eachInstr(wstr, func(in ssa.Instruction) {
			c := callCommon(in)
			if c == nil {
				return
			}
			isWrite := (c.IsInvoke() && c.Method.Name() == "Write") || calleeObj(c) == funcObj(wmsg)
			if !isWrite {
				return
			}
			nw++
			r.Sites++
			if !guardedBy(in, func(a Atom) bool {
				if a.Op != token.LEQ && a.Op != token.LSS {
					return false
				}
				c, isC := constInt(a.Y)
				return isC && ((a.Op == token.LEQ && c == 255) || (a.Op == token.LSS && c == 256)) && loadedField(canon(a.X)) == flags
			}) {
				okFlags = false
			}
		})
		r.Check(okFlags && nw >= 3, "encoder.flags-range", "R-GUARD", p.Pos(wstr.Pos()), "every write of an item is on the Flags <= 255 edge", "stream items are written without the flags having been range-checked (flags > 255 would be truncated silently instead of rejected)")
		// compressor from the item's own compression; closed on every successful path
		comp := p.Field(pkgGen, "MessageContents", "Compression")
		getc := findInstrs(wmsg, isCallNamed(modPath+"/internal/compression", "", "GetCompressor"))
		r.Sites++
		r.Check(len(getc) == 1 && loadedField(callCommon(getc[0]).Args[0]) == comp, "encoder.compressor-source", "R-WIRE", p.Pos(wmsg.Pos()), "GetCompressor(contents.Compression)", "the compressor is not obtained from the message's own compression")
		isClose := func(in ssa.Instruction) bool {
			c := callCommon(in)
			return c != nil && c.IsInvoke() && c.Method.Name() == "Close"
		}
		isCompWrite := func(in ssa.Instruction) bool {
			c := callCommon(in)
			return c != nil && c.IsInvoke() && c.Method.Name() == "Write"
		}
		dataF := p.Field(pkgGen, "MessageContents", "Data")
		okClose := true
		for _, ret := range returnsOf(wmsg) {
			r.Sites++
			allNil := true
			for _, v := range retVals(ret, 0) {
				if !isNilValue(v) {
					allNil = false
				}
			}
			if !allNil {
				continue
			}
			// a nil-error return: either "no data at all" or after Write+Close
			noData := guardedBy(ret, func(a Atom) bool {
				// no payload at all: the Data oneof is unset, or there is no MessageContents
				m, isNil := nilTestOn(a, func(v ssa.Value) bool {
					return loadedField(canon(v)) == dataF || canon(v) == ssa.Value(wmsg.Params[0])
				})
				return m && isNil
			})
			if noData {
				continue
			}
			if !precededBy(ret, isClose) || !precededBy(ret, isCompWrite) {
				okClose = false
				r.Fail("encoder.compress-always", "R-MUSTCALL", p.InstrPos(ret), "WriteRawMessageContents can report success for a present payload without running it through the compressor (Write + Close): e.g. an empty payload with gzip/deflate/br would produce a zero-length body instead of the encoding of the empty string")
			}
		}
		if okClose {
			r.OK("encoder.compress-always", "R-MUSTCALL", p.Pos(wmsg.Pos()), "every successful return for a present payload is preceded by compressor Write and Close")
		}
	}

	// ---- recorder ----
	rec := 0
	setRaw := p.TypeFunc(pkgRS, "", "setRawResponse")
	for _, name := range []string{"WrapUnary", "WrapStreamingHandler"} {
		fn := p.Func(pkgRS, "rawResponseRecorder", name)
		if fn == nil {
			r.Undecided("recorder."+name, "R-NOPATH", name+" not found")
			continue
		}
		for _, g := range withClosures(fn) {
			sets := findInstrs(g, isCallObj(setRaw))
			if len(sets) == 0 {
				continue
			}
			rec++
			nexts := findInstrs(g, func(in ssa.Instruction) bool {
				c := callCommon(in)
				if c == nil || c.IsInvoke() {
					return false
				}
				v := c.Value
				if u, ok := v.(*ssa.UnOp); ok && u.Op == token.MUL {
					v = u.X
				}
				fv, isFree := v.(*ssa.FreeVar)
				if !isFree {
					return false
				}
				t := fv.Type()
				if pt, ok := t.(*types.Pointer); ok {
					t = pt.Elem()
				}
				nt, ok := t.(*types.Named)
				return ok && (nt.Obj().Name() == "UnaryFunc" || nt.Obj().Name() == "StreamingHandlerFunc")
			})
			r.Sites++
			ok := len(nexts) > 0
			for _, s := range sets {
				for _, nx := range nexts {
					if reachesInstr(s, nx) {
						ok = false
					}
				}
			}
			r.Check(ok, "recorder.handler-skipped."+name, "R-NOPATH", p.Pos(g.Pos()), "the wrapped handler is unreachable once a raw response was recorded", "after recording a raw response the interceptor can still invoke the real handler: its output would compete with the raw response")
			if name == "WrapStreamingHandler" {
				drained := false
				eachInstr(g, func(in ssa.Instruction) {
					c := callCommon(in)
					if c != nil && c.IsInvoke() && c.Method.Name() == "Receive" && reachesInstr(sets[0], in) {
						for _, s := range in.Block().Succs {
							if reachable(s, in.Block()) {
								drained = true
							}
						}
					}
				})
				r.Sites++
				r.Check(drained, "recorder.drain", "R-MUSTCALL", p.Pos(g.Pos()), "the request stream is drained in a loop after the raw response is recorded", "the request stream is not drained before the raw response is sent")
			}
		}
	}
	r.Floor("recorder-sites", rec, 2)
	_ = types.Typ
}

// derivesFromField: v is computed from a load of field f through
// conversions, type assertions, getters or dereferences.
func derivesFromField(v ssa.Value, f *types.Var, d int) bool {
	if d > 6 || v == nil {
		return false
	}
	v = canon(v)
	if loadedField(v) == f {
		return true
	}
	switch x := v.(type) {
	case *ssa.TypeAssert:
		return derivesFromField(x.X, f, d+1)
	case *ssa.Extract:
		return derivesFromField(x.Tuple, f, d+1)
	case *ssa.UnOp:
		return derivesFromField(x.X, f, d+1)
	case *ssa.Phi:
		for _, e := range x.Edges {
			if derivesFromField(e, f, d+1) {
				return true
			}
		}
	case *ssa.Call:
		for _, a := range x.Call.Args {
			if derivesFromField(a, f, d+1) {
				return true
			}
		}
	}
	return false
}
