#!/usr/bin/env python3
"""Regenerates /verif/MANIFEST.json from the checker's registered properties.
Per-property texts live here; a property the checker does not register is
listed under not_applicable with the reason given in NA (or a default)."""
import json, subprocess, os
V = os.path.dirname(os.path.dirname(os.path.abspath(__file__)))
ids = subprocess.check_output([os.path.join(V, "bin/verifchk"), "-list"], text=True).split()
props = [json.loads(l) for l in open(os.path.join(V, "properties.jsonl"))]
BASE = "for m in $(cat /w/out/gomods.txt); do MF=$(cd /repo/$m && . /w/out/goenv.sh && gomodflag); (cd /repo/$m && go test $MF -json -vet=off -count=1 -timeout 25m ./...); done"
try:
    BASE = json.load(open("/root/.vp/BASELINE.json"))["cmd"]
except Exception:
    pass
TEXT = json.load(open(os.path.join(V, "tools/manifest_text.json")))
DESC = {d["ID"]: d for d in json.loads(subprocess.check_output([os.path.join(V, "bin/verifchk"), "-describe"], text=True))}
def level_text(i):
    d = DESC.get(i)
    if not d:
        return "structural necessary conditions of the property, decided statically on every path of the current source"
    return ("Static necessary conditions (level 'other'): every listed clause is decided on all paths of the current source, not on sampled runs; the behavioural statement as a whole is not decided. " + d["Explain"])
def level_note(i):
    d = DESC.get(i)
    if not d:
        return ""
    return ("Not decided: " + "; ".join(d["NotDecided"] or []) + ". Assumed: " + "; ".join(d["Assume"] or []) + ". Trusted base: " + "; ".join(d["Trusted"] or []) + ". Thorough tier adds a 4-configuration build matrix and %d witness mutants that must each be reported." % len(d["Mutants"] or []))
checks, na = [], []
for p in props:
    i = p["id"]
    t = TEXT.get(i, {})
    if i in ids:
        checks.append({
            "property_id": i,
            "quick_cmd": f"./check {i} quick",
            "thorough_cmd": f"./check {i} thorough",
            "evidence_file": f"/verif/evidence/{i}.json",
            "replay_cmd_template": f"./check {i} quick --replay {{path}}",
            "engine": "verifchk",
            "level_claimed": {
                "category": "other",
                "text": t.get("text") or level_text(i),
                "design_ref": f"DESIGN.md §4 {i}",
            },
            "level_note": t.get("note") or level_note(i),
            "technique": t.get("technique", "static analysis: custom go/ssa + go/types rules (dominance, must-pass-through, lockset, table agreement)"),
        })
    else:
        na.append({"property_id": i, "reason": t.get("na", "no static rule for a clause of this property is armed in this commit; the behavioural statement quantifies over runtime values and is not decidable by static analysis")})
m = {
    "version": 1,
    "setup_cmd": "cd /verif/checker && GOFLAGS=-mod=mod GOPROXY=off GOSUMDB=off GOTOOLCHAIN=local GOWORK=off go build -o /verif/bin/verifchk .",
    "hooks": {
        "guard": "verif",
        "enable": "none needed: the checks are static and load /repo with go/packages (build tag verif passed, no hook files exist)",
        "baseline_off_cmd": BASE,
        "source_commits": [],
        "add_only": True,
    },
    "engines": [{
        "name": "verifchk",
        "path": "/verif/checker",
        "serves_properties": ids,
        "kind_free_text": "repository-specific static analyser: go/packages + go/types + go/ssa + VTA call graph; rules: dominance/guards, must-pass-through, ordering, value flow, locksets, table agreement, exhaustiveness, panic-site audit; nothing from /repo is executed",
    }],
    "checks": checks,
    "not_applicable": na,
    "notes": "Technique family: static analysis only. Every claim is level 'other': named structural necessary conditions of the property hold on every path of the current source; see DESIGN.md for what is and is not decided per property. known-findings.txt lists repaired defects (fix: commits in /repo).",
}
json.dump(m, open(os.path.join(V, "MANIFEST.json"), "w"), indent=1)
print("claimed:", " ".join(ids), "| not_applicable:", " ".join(x["property_id"] for x in na))
