#!/usr/bin/env python3
"""Regenerate the per-property prompts for a round of independent seeding agents.

usage: gen_prompts.py <round> <k1> <k2> [outdir]     e.g.  gen_prompts.py 11 21 22 /tmp/props
Writes <outdir>/Cxx.json (the property text only) and <outdir>/PROMPT<round>_Cxx.txt.
The prompt is tools/seed_prompt.txt with the worktree path /tmp/wt<round>/Cxx, the ids
Cxx-<k1>, Cxx-<k2> and the list of sites already used by kept seeds (seeded/*/meta.json).
Agents get nothing from /verif: copy the two files out of /verif before starting them.
"""
import glob, json, os, sys

rnd, k1, k2 = sys.argv[1], sys.argv[2], sys.argv[3]
out = sys.argv[4] if len(sys.argv) > 4 else "/tmp/props"
here = os.path.dirname(os.path.dirname(os.path.abspath(__file__)))
os.makedirs(out, exist_ok=True)
tmpl = open(os.path.join(here, "tools", "seed_prompt.txt")).read()
for line in open(os.path.join(here, "properties.jsonl")):
    if not line.strip():
        continue
    p = json.loads(line)
    pid = p["id"]
    json.dump(p, open(os.path.join(out, pid + ".json"), "w"), indent=1)
    sites = []
    metas = glob.glob(os.path.join(here, "seeded", pid + "-*", "meta.json"))
    for m in sorted(metas, key=lambda s: int(os.path.basename(os.path.dirname(s)).split("-")[1])):
        s = (json.load(open(m)).get("site") or "").strip().rstrip(".;")
        if s:
            sites.append(s[:180])
    t = tmpl.replace("{PID}", pid).replace("{WT}", f"/tmp/wt{rnd}/{pid}").replace("{PROPS}", out)
    t = t.replace("{K1}", k1).replace("{K2}", k2).replace("{SITES}", "; ".join(sites))
    open(os.path.join(out, f"PROMPT{rnd}_{pid}.txt"), "w").write(t)
print("wrote", out)
