#!/usr/bin/env python3
"""Collects the deliverables of seeding agents from their scratch worktrees
(/tmp/wt2/<PROP>/_seeded/<id>), confirms each independently with
verify_seeds.py and installs the confirmed ones under /verif/seeded/<id>
(patch.diff, demonstration, RUN.txt, meta.json with the confirmation).
Removes the agent's worktree afterwards.
usage: install_seeds.py <PROP> [...]"""
import json, os, shutil, subprocess, sys
V = "/verif"
ROUND = int(os.environ.get("SEED_ROUND", "2"))
WT = os.environ.get("SEED_WT", "/tmp/wt2")
STAGE = os.environ.get("SEED_STAGE", "/tmp/seeds2")
os.makedirs(STAGE, exist_ok=True)
for prop in sys.argv[1:]:
    staged = None
    if "-" in prop:  # an already staged seed id: re-verify and install just that one
        staged, prop = prop, prop.split("-")[0]
    wt = f"{WT}/{prop}"
    src = os.path.join(wt, "_seeded")
    ids = [staged] if staged else (sorted(os.listdir(src)) if os.path.isdir(src) else [])
    if staged:
        src = "/nonexistent"
    if not staged:
        for sid in ids:
            shutil.rmtree(os.path.join(STAGE, sid), ignore_errors=True)
            shutil.copytree(os.path.join(src, sid), os.path.join(STAGE, sid))
        subprocess.run(["git", "-C", "/repo", "worktree", "remove", "--force", wt], capture_output=True)
        shutil.rmtree(wt, ignore_errors=True)
    if not ids:
        print(prop, "no deliverables")
        continue
    subprocess.run([sys.executable, f"{V}/tools/verify_seeds.py", STAGE] + ids)
    ver = json.load(open(os.path.join(STAGE, "verify.json")))
    for sid in ids:
        r = ver.get(sid, {})
        if not r.get("confirmed"):
            print(sid, "NOT installed:", {k: r.get(k) for k in ("error", "demo_without", "demo_with", "suite_with")})
            continue
        dst = os.path.join(V, "seeded", sid)
        shutil.rmtree(dst, ignore_errors=True)
        os.makedirs(dst)
        am = {}
        for f in os.listdir(os.path.join(STAGE, sid)):
            if f == "meta.json":
                am = json.load(open(os.path.join(STAGE, sid, f)))
            elif f == "patch.diff" or f == "RUN.txt" or f.endswith(".go"):
                shutil.copy(os.path.join(STAGE, sid, f), dst)
        meta = {
            "id": sid, "property": prop, "round": ROUND,
            "origin": "independent sub-agent given only the property text and a scratch worktree (nothing from /verif); round %d, run after the checks of the previous round were finished and committed; told only which earlier sites to avoid" % ROUND,
            "breaks": am.get("clause_broken", ""), "site": am.get("site", ""), "what_changed": am.get("what_changed", ""),
            "needs_to_manifest": am.get("needs_to_manifest", ""), "why_tests_miss_it": am.get("why_tests_miss_it", ""),
            "confirmed_by_me": {"how": "tools/verify_seeds.py in a scratch worktree of /repo HEAD (removed afterwards): demo `go test -run Seeded <pkg>` on unchanged tree, again after `git apply patch.diff`, then `go build ./... && go vet ./... && go test -vet=off -count=1 ./...` with the patch and without the demo",
                                "demo_passes_without_change": r["demo_without"] == 0, "demo_fails_with_change": r["demo_with"] != 0, "suite_passes_with_change": r["suite_with"] == 0},
            "agent_meta": am,
        }
        json.dump(meta, open(os.path.join(dst, "meta.json"), "w"), indent=1)
        print(sid, "installed")
