#!/usr/bin/env python3
"""Regenerates the generated parts of /verif/DESIGN.md (between the
<!-- BEGIN GENERATED name --> / <!-- END GENERATED name --> markers) from what
the checker registers (`verifchk -describe`), from the evidence of the last
quick runs and from seeded/RESULTS.json, so that the per-property text says
what is actually implemented and measured."""
import json, os, re, subprocess
V = os.path.dirname(os.path.dirname(os.path.abspath(__file__)))
desc = json.loads(subprocess.check_output([os.path.join(V, "bin/verifchk"), "-describe"], text=True))
props = {json.loads(l)["id"]: json.loads(l) for l in open(os.path.join(V, "properties.jsonl"))}
res = json.load(open(os.path.join(V, "seeded/RESULTS.json")))
known = [l.strip() for l in open(os.path.join(V, "known-findings.txt")) if l.startswith(("finding:", "fixed:"))]


def clauses(explain):
    """split 'intro: (name) text; (name) text ... It does NOT decide ...'"""
    m = re.split(r"\s(?=\([a-z][a-z0-9-]*\)\s)", explain)
    return m


def seeds_for(pid):
    out = []
    for sid in sorted(res):
        if not sid.startswith(pid + "-"):
            continue
        meta = json.load(open(os.path.join(V, "seeded", sid, "meta.json")))
        out.append((sid, meta.get("site", ""), meta.get("what_changed", ""), res[sid]))
    return out


sec = []
for d in desc:
    pid = d["ID"]
    ev = {}
    try:
        ev = json.load(open(os.path.join(V, "evidence", pid + ".json")))
    except Exception:
        pass
    cov = ev.get("coverage", {})
    sec.append(f"### {pid} — {props[pid]['title']}\n")
    parts = clauses(d["Explain"])
    sec.append(parts[0].strip() + "\n")
    for c in parts[1:]:
        m = re.match(r"\(([a-z0-9-]+)\)\s(.*)", c, re.S)
        body = m.group(2).strip()
        tail = ""
        k = body.find("It does NOT decide")
        if k >= 0:
            body, tail = body[:k].strip(), body[k:].strip()
        body = body.rstrip(";").strip()
        sec.append(f"* **{pid}.{m.group(1)}** — {body}")
        if tail:
            sec.append("\n" + tail)
    sec.append("")
    sec.append("*Not decided:* " + "; ".join(d["NotDecided"] or []) + ".\n")
    sec.append("*Assumed:* " + "; ".join(d["Assume"] or []) + ".\n")
    if cov:
        rules = ", ".join(f"{k} {v}" for k, v in sorted(cov.get("obligations_by_rule", {}).items()))
        extra = ""
        if "panic_sites" in cov:
            by = ", ".join("%s×%d" % (k.split(" ")[0], v) for k, v in sorted((cov.get("panic_discharged_by_guard") or {}).items()))
            extra = f"; panic audit: {cov.get('panic_sites')} potential sites in {cov.get('panic_functions')} functions, discharged by {by}"
        sec.append(f"*Measured on the repaired tree (quick):* {cov.get('obligations')} obligations ({rules}), {cov.get('evaluations')} program points examined, {len(cov.get('functions_analysed', []))} functions named in obligations{extra}; {ev.get('wall_s', 0):.0f} s.\n")
    fk = [l for l in known if f"property={pid} " in l and l.startswith("finding:")]
    for l in fk:
        m = re.match(r"finding: property=\S+ key=(\S+) (.*)", l)
        sec.append(f"*Known finding (printed as KNOWN-FINDING, exit 0):* `{m.group(1)}` — {m.group(2)}\n")
    sec.append(f"*Witness mutants (thorough, {len(d['Mutants'] or [])}):*\n")
    sec.append("| mutant | file | edit | must be reported by |")
    sec.append("|---|---|---|---|")
    for m in d["Mutants"] or []:
        sec.append(f"| {m['ID']} | `{m['File']}` | {m['Note']} | `{'`, `'.join(m['Expect'])}…` |")
    sec.append("")
    ss = seeds_for(pid)
    if ss:
        sec.append("*Independent seeded changes (§6.3):*\n")
        sec.append("| seed | site | reported by (quick) |")
        sec.append("|---|---|---|")
        for sid, site, what, r in ss:
            by = "; ".join(f"`{v}`" for v in r.get("violations", [])[:3]) if r.get("detected_by") else "**missed**"
            if json.load(open(os.path.join(V, "seeded", sid, "meta.json"))).get("obsolete"):
                by = "retired: harmless after a later `fix:` commit, and no longer reported"
            sec.append(f"| {sid} | {site} | {by} |")
        sec.append("")

# seeds table
tbl = ["| seed | property | what the change does | caught by | obligation(s) |", "|---|---|---|---|---|"]
nd = 0
retired = []
for sid in sorted(res):
    meta = json.load(open(os.path.join(V, "seeded", sid, "meta.json")))
    r = res[sid]
    what = meta.get("what_changed", "").replace("\n", " ").replace("|", "\\|")
    if len(what) > 260:
        what = what[:257] + "…"
    if meta.get("obsolete"):
        retired.append(sid)
        tbl.append(f"| {sid} | {r['property']} | {what} | retired | a later `fix:` commit made this change harmless (see meta.json); not a witness mutant any more |")
        continue
    if r.get("detected_by"):
        nd += 1
    tbl.append(f"| {sid} | {r['property']} | {what} | {', '.join(r.get('detected_by') or ['—'])} | {'; '.join('`'+v+'`' for v in r.get('violations', [])[:2])} |")
tbl.append("")
tbl.append(f"{nd} of {len(res) - len(retired)} live seeded changes are reported by the quick check of their own property" + (f"; {len(retired)} retired ({', '.join(retired)})." if retired else "."))

# summary table
summ = ["| id | level | obligations | rules | witness mutants | seeds caught |", "|---|---|---|---|---|---|"]
for d in desc:
    pid = d["ID"]
    try:
        cov = json.load(open(os.path.join(V, "evidence", pid + ".json")))["coverage"]
    except Exception:
        cov = {}
    ss = [s for s in res if s.startswith(pid + "-")]
    summ.append(f"| {pid} | other | {cov.get('obligations', '?')} | {', '.join(sorted(k for k in cov.get('obligations_by_rule', {}) if k != 'instance-floor'))} | {len(d['Mutants'] or [])} | {sum(1 for s in ss if res[s].get('detected_by'))}/{len(ss)} |")

path = os.path.join(V, "DESIGN.md")
s = open(path).read()
for name, body in (("per-property", "\n".join(sec)), ("seeds", "\n".join(tbl)), ("summary", "\n".join(summ))):
    b, e = f"<!-- BEGIN GENERATED {name} -->", f"<!-- END GENERATED {name} -->"
    i, j = s.index(b), s.index(e)
    s = s[: i + len(b)] + "\n" + body + "\n" + s[j:]
open(path, "w").write(s)
print("DESIGN.md regenerated:", len(desc), "properties,", len(res), "seeds")
