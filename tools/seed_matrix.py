#!/usr/bin/env python3
"""Runs the registered quick checks against each kept seeded change:
apply /verif/seeded/<id>/patch.diff to /repo, run ./check <prop> quick for the
seed's own property (or all claimed ones with --all), undo with git checkout.
Writes /verif/seeded/RESULTS.json. /repo must be clean."""
import json, os, subprocess, sys
V = "/verif"
man = json.load(open(f"{V}/MANIFEST.json"))
claimed = [c["property_id"] for c in man["checks"]]
allp = "--all" in sys.argv
ids = [a for a in sys.argv[1:] if not a.startswith("--")] or sorted(d for d in os.listdir(f"{V}/seeded") if os.path.isdir(f"{V}/seeded/{d}"))
assert subprocess.run(["git", "-C", "/repo", "status", "--porcelain"], capture_output=True, text=True).stdout.strip() == "", "/repo not clean"
path = f"{V}/seeded/RESULTS.json"
res = json.load(open(path)) if os.path.exists(path) else {}
for sid in ids:
    prop = sid.split("-")[0]
    props = claimed if allp else [p for p in [prop] if p in claimed]
    entry = {"property": prop, "checked_with": props, "detected_by": [], "violations": []}
    if not props:
        entry["note"] = "property not claimed yet"
        res[sid] = entry
        print(sid, "skipped (property not claimed)")
        continue
    subprocess.check_call(["git", "-C", "/repo", "apply", f"{V}/seeded/{sid}/patch.diff"])
    try:
        for p in props:
            pr = subprocess.run([f"{V}/check", p, "quick"], capture_output=True, text=True, cwd=V)
            if pr.returncode != 0:
                entry["detected_by"].append(p)
                for line in pr.stdout.splitlines():
                    if line.strip().startswith("obligation:"):
                        entry["violations"].append(line.split("obligation:")[1].strip())
    finally:
        subprocess.check_call(["git", "-C", "/repo", "checkout", "--", "."])
    res[sid] = entry
    print(sid, "DETECTED by " + ",".join(entry["detected_by"]) + " " + "; ".join(entry["violations"][:3]) if entry["detected_by"] else "missed")
    json.dump(res, open(path, "w"), indent=1, sort_keys=True)
# restore evidence of the unchanged tree for the properties we touched
for p in sorted({sid.split("-")[0] for sid in ids} & set(claimed)) if not allp else claimed:
    subprocess.run([f"{V}/check", p, "quick"], capture_output=True, cwd=V)
