#!/usr/bin/env python3
"""Independently confirm seeded defects: in a scratch worktree of /repo,
(1) the demo passes on the unchanged tree, (2) fails with the patch,
(3) the whole existing suite still builds, vets and passes with the patch.
usage: verify_seeds.py <seeds-dir> [id ...]   -> writes <seeds-dir>/verify.json"""
import json, os, re, shutil, subprocess, sys, concurrent.futures as cf

ENV = dict(os.environ, GOFLAGS="-mod=mod", GOPROXY="off", GOSUMDB="off", GOTOOLCHAIN="local")
ENV.pop("GOWORK", None)


def sh(cmd, cwd, timeout=900):
    p = subprocess.run(cmd, shell=True, cwd=cwd, env=ENV, capture_output=True, text=True, errors="replace", timeout=timeout)
    return p.returncode, (p.stdout + p.stderr)[-3000:]


def verify(seeds, sid):
    d = os.path.join(seeds, sid)
    wt = f"/tmp/vs/{sid}"
    res = {"id": sid}
    subprocess.run(["git", "-C", "/repo", "worktree", "remove", "--force", wt], capture_output=True)
    shutil.rmtree(wt, ignore_errors=True)
    os.makedirs("/tmp/vs", exist_ok=True)
    subprocess.check_call(["git", "-C", "/repo", "worktree", "add", "-q", "--detach", wt, "HEAD"])
    try:
        run = open(os.path.join(d, "RUN.txt")).read()
        copies = re.findall(r"cp\s+_seeded/[^/\s]+/(\S+)\s+(\S+)", run)
        if not copies:
            res["error"] = "no cp line in RUN.txt"
            return res
        pkgs = set()
        dests = []
        for src, dst in copies:
            if dst.endswith("/"):
                dst = dst + os.path.basename(src)
            if os.path.isdir(os.path.join(wt, dst)):
                dst = os.path.join(dst, os.path.basename(src))
            shutil.copy(os.path.join(d, src), os.path.join(wt, dst))
            dests.append(dst)
            pkgs.add("./" + os.path.dirname(dst) + "/")
        pk = " ".join(sorted(pkgs))
        rc, out = sh(f"go test -vet=off -count=1 -run Seeded {pk}", wt)
        res["demo_without"] = rc
        res["demo_without_tail"] = out[-400:]
        rc, out = sh(f"git apply {d}/patch.diff", wt)
        if rc != 0:
            res["error"] = "patch does not apply: " + out
            return res
        rc, out = sh(f"go test -vet=off -count=1 -run Seeded {pk}", wt)
        res["demo_with"] = rc
        res["demo_with_tail"] = out[-600:]
        for dst in dests:
            os.remove(os.path.join(wt, dst))
        rc, out = sh("go build ./... && go vet ./... && go test -vet=off -count=1 ./...", wt, timeout=1800)
        res["suite_with"] = rc
        if rc != 0:
            res["suite_tail"] = out[-1500:]
        res["confirmed"] = res["demo_without"] == 0 and res["demo_with"] != 0 and res["suite_with"] == 0
        return res
    except Exception as e:  # noqa
        res["error"] = repr(e)
        return res
    finally:
        subprocess.run(["git", "-C", "/repo", "worktree", "remove", "--force", wt], capture_output=True)
        shutil.rmtree(wt, ignore_errors=True)


def main():
    seeds = sys.argv[1]
    ids = sys.argv[2:] or sorted(x for x in os.listdir(seeds) if os.path.isdir(os.path.join(seeds, x)))
    out = {}
    path = os.path.join(seeds, "verify.json")
    if os.path.exists(path):
        out = json.load(open(path))
    with cf.ThreadPoolExecutor(max_workers=int(os.environ.get("VERIFY_WORKERS", "4"))) as ex:
        for r in ex.map(lambda s: verify(seeds, s), ids):
            out[r["id"]] = r
            print(r["id"], "CONFIRMED" if r.get("confirmed") else "NOT CONFIRMED", r.get("error", ""), flush=True)
            json.dump(out, open(path, "w"), indent=1)


if __name__ == "__main__":
    main()
